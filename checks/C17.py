"""C17 - a command line builds the same formula as the library call it stands for.

bounded part (relational by nature: CLI result vs the documented library call)
  * every sub-command of cnfgen and pbgen x every subset of its variant options x 2-3 parameter tuples
    and several graph arguments.  Graph arguments given as constructions are stored with `save FILE`
    and the library call receives the graph read back from FILE (so the check does not depend on how
    the construction numbers its vertices or on the RNG); graph files are read by the library from the same file.
  * variants whose random graph is not observable (`php M N D`, `tseitin N d`, `tseitin random* G`,
    `subsetcard N d`, `stone --sparse`, `op N d`, `xorcomp N d`): the graph is decoded from the variable names
    of the produced formula (or all candidate graphs/charges are enumerated) and the formula must equal
    the library call on one object of the documented shape.
  * -T chains (all pairs, sampled triples) vs the composition of the transformation functions, RNG re-seeded identically.
  * kthlist2pebbling vs `cnfgen peb kthlist FILE` vs PebblingFormula(readGraph(FILE)).
  * -q/-v/--varnames/-of: printed output re-read by independent strict readers equals the library formula.
compared: formula class, number of variables, variable names, multiset of clauses/constraints.
Violation key: <tool>:<sub-command>:<variant>:<what>
"""
import collections
import io
import itertools
import json
import multiprocessing as mp
import os
import random
import re
import sys
import tempfile
import zlib

from vlib import core, x_cli
from vlib.replay import generic_replay

LEVEL = 'exploration'

FAMILIES = {
    'PigeonholePrinciple': 'cnfgen.families.pigeonhole', 'GraphPigeonholePrinciple': 'cnfgen.families.pigeonhole',
    'BinaryPigeonholePrinciple': 'cnfgen.families.pigeonhole', 'RelativizedPigeonholePrinciple': 'cnfgen.families.pigeonhole',
    'CliqueColoring': 'cnfgen.families.cliquecoloring', 'RamseyNumber': 'cnfgen.families.ramsey',
    'PythagoreanTriples': 'cnfgen.families.ramsey', 'VanDerWaerden': 'cnfgen.families.ramsey',
    'CountingPrinciple': 'cnfgen.families.counting', 'PerfectMatchingPrinciple': 'cnfgen.families.counting',
    'TseitinFormula': 'cnfgen.families.tseitin', 'SubsetCardinalityFormula': 'cnfgen.families.subsetcardinality',
    'CPLSFormula': 'cnfgen.families.cpls', 'PitfallFormula': 'cnfgen.families.pitfall',
    'OrderingPrinciple': 'cnfgen.families.ordering', 'GraphOrderingPrinciple': 'cnfgen.families.ordering',
    'GraphColoringFormula': 'cnfgen.families.coloring', 'EvenColoringFormula': 'cnfgen.families.coloring',
    'DominatingSet': 'cnfgen.families.dominatingset', 'Tiling': 'cnfgen.families.dominatingset',
    'GraphIsomorphism': 'cnfgen.families.graphisomorphism', 'GraphAutomorphism': 'cnfgen.families.graphisomorphism',
    'SubgraphFormula': 'cnfgen.families.subgraph', 'CliqueFormula': 'cnfgen.families.subgraph',
    'BinaryCliqueFormula': 'cnfgen.families.subgraph', 'RamseyWitnessFormula': 'cnfgen.families.subgraph',
    'PebblingFormula': 'cnfgen.families.pebbling', 'StoneFormula': 'cnfgen.families.pebbling',
    'SparseStoneFormula': 'cnfgen.families.pebbling', 'RandomKCNF': 'cnfgen.families.randomformulas',
    'RandomKXOR': 'cnfgen.families.randomkxor',
}
TRANSFORMS = {
    'Shuffle': 'cnfgen.transformations.shuffle',
}
for _n in ('AllEqualSubstitution', 'ExactlyOneSubstitution', 'ExactlyKSubstitution', 'AnythingButKSubstitution', 'AtMostKSubstitution',
           'AtLeastKSubstitution', 'FlipPolarity', 'FormulaLifting', 'IfThenElseSubstitution', 'MajoritySubstitution',
           'NotAllEqualSubstitution', 'OrSubstitution', 'VariableCompression', 'XorSubstitution'):
    TRANSFORMS[_n] = 'cnfgen.transformations.substitutions'

# command line transformation -> (library function, how the numbers map)
TLIB = {
    'none': None, 'flip': ('FlipPolarity', 0), 'ite': ('IfThenElseSubstitution', 0), 'or': ('OrSubstitution', 1), 'xor': ('XorSubstitution', 1),
    'eq': ('AllEqualSubstitution', 1), 'neq': ('NotAllEqualSubstitution', 1), 'maj': ('MajoritySubstitution', 1),
    'one': ('ExactlyOneSubstitution', 1), 'lift': ('FormulaLifting', 1), 'atleast': ('AtLeastKSubstitution', 2),
    'atmost': ('AtMostKSubstitution', 2), 'exact': ('ExactlyKSubstitution', 2), 'anybut': ('AnythingButKSubstitution', 2),
}


# ------------------------------------------------------------------------------------------
# term evaluation (expected side)
# ------------------------------------------------------------------------------------------
class Env:
    def __init__(self, tool, fix, out):
        core.import_repo()
        from cnfgen.formula.cnf import CNF
        from cnfgen.formula.opb import OPB
        self.cls = OPB if tool == 'pbgen' else CNF
        self.fix, self.out = fix, out

    def path(self, p):
        return p.replace('{D}', self.fix).replace('{O}', self.out)

    def ev(self, t):
        import importlib
        if isinstance(t, list) and t and t[0] == 'call':
            name, args = t[1], [self.ev(a) for a in t[2]]
            kw = {k: self.ev(v) for k, v in (t[3] if len(t) > 3 else {}).items()}
            if name in FAMILIES:
                f = getattr(importlib.import_module(FAMILIES[name]), name)
                kw['formula_class'] = self.cls
            else:
                f = getattr(importlib.import_module(TRANSFORMS[name]), name)
            return f(*args, **kw)
        if isinstance(t, list) and t and t[0] == 'graph':
            from cnfgen.graphs import readGraph
            return readGraph(self.path(t[2]), t[1], t[3])
        if isinstance(t, list) and t and t[0] == 'bip':          # explicit bipartite graph
            from cnfgen.graphs import BipartiteGraph
            B = BipartiteGraph(t[1], t[2])
            for u, v in t[3]:
                B.add_edge(u, v)
            return B
        if isinstance(t, list) and t and t[0] == 'simple':
            from cnfgen.graphs import Graph
            G = Graph(t[1])
            for u, v in t[2]:
                G.add_edge(u, v)
            return G
        if isinstance(t, list) and t and t[0] == 'dag':
            from cnfgen.graphs import DirectedGraph
            G = DirectedGraph(t[1])
            for u, v in t[2]:
                G.add_edge(u, v)
            return G
        if isinstance(t, list) and t and t[0] == 'saved':        # file written by `save`, read by parse_saved_graph
            return self.ev(parse_saved_graph(t[1], self.path(t[2]), t[3]))
        if isinstance(t, list) and t and t[0] == 'lit':
            return t[1]
        if isinstance(t, list) and t and t[0] == 'dimacs':
            from cnfgen.utils.parsedimacs import from_dimacs_file
            return from_dimacs_file(self.cls, self.path(t[1]))
        if isinstance(t, list) and t and t[0] == 'simpleformula':   # and / or / true / false
            F = self.cls(description='x')
            P = list(F.new_block(t[2], label='x_{}'))
            N = list(F.new_block(t[3], label='y_{}'))
            if t[1] == 'or':
                F.add_clause(P + [-v for v in N])
            elif t[1] == 'and':
                for v in P:
                    F.add_clause([v])
                for v in N:
                    F.add_clause([-v])
            elif t[1] == 'false':
                F.add_clause([])
            return F
        return t


class SavedFileError(Exception):
    pass


def parse_saved_graph(kind, path, fmt):
    """independent reader of the files written by `save` (kthlist, dimacs, matrix), written from the
    format descriptions; returns an explicit graph term ['simple'|'dag', n, edges] / ['bip', L, R, edges]"""
    with open(path, encoding='utf-8') as f:
        lines = [l.strip() for l in f.read().split('\n')]
    if fmt == 'matrix':
        rows = [l.split() for l in lines if l]
        L, R = int(rows[0][0]), int(rows[0][1])
        body = rows[1:]
        if len(body) != L or any(len(r) != R or set(r) - {'0', '1'} for r in body):
            raise SavedFileError('saved matrix file {} is not an {}x{} 0/1 matrix'.format(path, L, R))
        return ['bip', L, R, [(u + 1, v + 1) for u in range(L) for v in range(R) if body[u][v] == '1']]
    if fmt == 'dimacs':
        n, m, edges = None, None, []
        for l in lines:
            if not l or l.startswith('c'):
                continue
            t = l.split()
            if t[0] == 'p':
                n, m = int(t[2]), int(t[3])
            elif t[0] == 'e':
                edges.append((int(t[1]), int(t[2])))
            else:
                raise SavedFileError('saved dimacs file {}: line {!r}'.format(path, l))
        if n is None or m != len(edges):
            raise SavedFileError('saved dimacs file {}: header does not match the body'.format(path))
        if kind == 'simple':
            edges = sorted(set((min(e), max(e)) for e in edges))
        return [kind if kind != 'bipartite' else 'bip', n, sorted(edges)]
    if fmt == 'kthlist':
        data = [l for l in lines if l and not l.startswith('c')]
        n = int(data[0])
        rows = []
        for l in data[1:]:
            head, _, tail = l.partition(':')
            nb = [int(x) for x in tail.split()]
            if not nb or nb[-1] != 0:
                raise SavedFileError('saved kthlist file {}: line {!r} not closed by 0'.format(path, l))
            rows.append((int(head), nb[:-1]))
        if kind == 'bipartite':
            L = len(rows)
            return ['bip', L, n - L, sorted((u, w - L) for u, nb in rows for w in nb)]
        if len(rows) != n:
            raise SavedFileError('saved kthlist file {}: {} rows for {} vertices'.format(path, len(rows), n))
        if kind == 'dag':
            return ['dag', n, sorted((w, v) for v, nb in rows for w in nb)]
        return ['simple', n, sorted(set((min(v, w), max(v, w)) for v, nb in rows for w in nb))]
    raise ValueError(fmt)


def canon(F):
    """(class name, numvar, labels, multiset of normalised clauses/constraints)"""
    rows = []
    for c in F:
        if len(c) >= 2 and isinstance(c[-2], str):
            rows.append((tuple(sorted((int(a), int(b)) for a, b in c[:-2])), c[-2], int(c[-1])))
        else:
            rows.append(tuple(sorted(int(l) for l in c)))
    return type(F).__name__, F.number_of_variables(), list(F.all_variable_labels()), collections.Counter(rows)


def diff(a, b):
    """a = cli, b = library"""
    if a[0] != b[0]:
        return 'class', 'command line builds a {} object, library call a {}'.format(a[0], b[0])
    if a[1] != b[1]:
        return 'numvar', 'command line has {} variables, library {}'.format(a[1], b[1])
    if a[2] != b[2]:
        d = [(x, y) for x, y in zip(a[2], b[2]) if x != y][:3]
        return 'names', 'variable names differ, e.g. {}'.format(d)
    if a[3] != b[3]:
        only_cli = list((a[3] - b[3]).elements())[:3]
        only_lib = list((b[3] - a[3]).elements())[:3]
        return 'clauses', '{} vs {} clauses; only on command line: {}; only in library: {}'.format(
            sum(a[3].values()), sum(b[3].values()), only_cli, only_lib)
    return None


# ------------------------------------------------------------------------------------------
# candidates for the unobservable random parts
# ------------------------------------------------------------------------------------------
def _labels_pairs(F, letter):
    out = []
    for l in F.all_variable_labels():
        m = re.fullmatch(re.escape(letter) + r'_\{(\d+),(\d+)\}', l)
        if m:
            out.append((int(m.group(1)), int(m.group(2))))
    return out


def candidates(kind, p, Fcli):
    """list of (expected term, shape-ok flag/None) for an `exists` expectation"""
    if kind == 'php-degree':           # p: M N D functional onto
        E = _labels_pairs(Fcli, 'p')
        deg = collections.Counter(u for u, _ in E)
        ok = all(deg[u] == p['D'] for u in range(1, p['M'] + 1)) and all(1 <= v <= p['N'] for _, v in E) and len(set(E)) == len(E)
        if not ok:
            return [], 'variables p_{{i,j}} do not describe a bipartite graph with {} pigeons of degree {} into {} holes: {}'.format(p['M'], p['D'], p['N'], E[:12])
        return [['call', 'GraphPigeonholePrinciple', [['bip', p['M'], p['N'], E]], {'functional': p['functional'], 'onto': p['onto']}]], None
    if kind == 'subsetcard-regular':   # p: N d equal
        E = _labels_pairs(Fcli, 'x')
        dl = collections.Counter(u for u, _ in E)
        dr = collections.Counter(v for _, v in E)
        N, d = p['N'], p['d']
        ok = len(E) == N * d + 1 and sorted(dl[u] for u in range(1, N + 1)) == [d] * (N - 1) + [d + 1] and \
            sorted(dr[v] for v in range(1, N + 1)) == [d] * (N - 1) + [d + 1]
        if not ok:
            return [], 'variables x_{{i,j}} do not describe an ({0},{0}) bipartite {1}-regular graph plus one edge: {2}'.format(N, d, sorted(dl.values()))
        return [['call', 'SubsetCardinalityFormula', [['bip', N, N, E], p['equal']]]], None
    if kind == 'stone-sparse':         # p: D term, nvertices, s, d
        E = _labels_pairs(Fcli, 'P')
        deg = collections.Counter(u for u, _ in E)
        ok = all(deg[u] == p['d'] for u in range(1, p['n'] + 1)) and all(1 <= v <= p['s'] for _, v in E)
        if not ok:
            return [], 'variables P_{{v,s}} do not give every vertex exactly {} of {} stones: {}'.format(p['d'], p['s'], E[:12])
        return [['call', 'SparseStoneFormula', [p['D'], ['bip', p['n'], p['s'], E]]]], None
    if kind == 'tseitin-charge':       # p: G term (or None -> decode), n, parity in 0/1/None, regular d
        if p.get('G') is None:
            E = _labels_pairs(Fcli, 'E')
            deg = collections.Counter(x for e in E for x in e)
            if not all(deg[v] == p['d'] for v in range(1, p['n'] + 1)):
                return [], 'variables E_{{u,v}} do not describe a {}-regular graph on {} vertices'.format(p['d'], p['n'])
            G = ['simple', p['n'], E]
        else:
            G = p['G']
        out = []
        for ch in itertools.product([0, 1], repeat=p['n']):
            if p['parity'] is None or sum(ch) % 2 == p['parity']:
                out.append(['call', 'TseitinFormula', [G, ['lit', list(ch)]]])
        return out, None
    if kind == 'compression':          # p: F term, V, N, d, function
        out = []
        rows = list(itertools.combinations(range(1, p['N'] + 1), p['d']))
        for pick in itertools.product(rows, repeat=p['V']):
            E = [(u + 1, v) for u, r in enumerate(pick) for v in r]
            out.append(['call', 'VariableCompression', [p['F'], ['bip', p['V'], p['N'], E], p['function']]])
        return out, None
    raise ValueError(kind)


# ------------------------------------------------------------------------------------------
# one case
# ------------------------------------------------------------------------------------------
def _cli_formula(tool, argv, stdin=''):
    core.import_repo()
    import importlib
    from cnfgen.clitools import msg
    msg._prefix = ''
    mod = importlib.import_module(x_cli.TOOLS[tool])
    old = sys.stdin, sys.stderr
    sys.stdin, sys.stderr = io.StringIO(stdin), io.StringIO()
    try:
        return mod.cli([tool] + argv, mode='formula')
    finally:
        sys.stdin, sys.stderr = old


def eval_case(case, fix=None):
    """returns None (agree) | ('trivial-both-reject',) | (what, text)"""
    core.import_repo()
    from cnfgen.clitools.cmdline import CLIError
    own_fix = None
    if fix is None:
        own_fix = tempfile.TemporaryDirectory()
        fix = own_fix.name
        x_cli.make_fixtures(fix)
    try:
        with tempfile.TemporaryDirectory() as out:
            env = Env(case['tool'], fix, out)
            argv = [env.path(a) for a in case['argv']]
            seed = case.get('seed')
            if seed is not None and case['tool'] != 'kthlist2pebbling':
                argv = ['--seed', str(seed)] + argv
            stdin = case.get('stdin', '')
            random.seed(zlib.crc32(repr(case['argv']).encode()))
            cli_exc = None
            try:
                Fcli = _cli_formula(case['tool'], argv, stdin)
            except CLIError as e:
                cli_exc = e
            except SystemExit as e:
                return 'exit', 'command line exits with status {}'.format(e.code)
            except Exception as e:
                return 'raised', 'command line raises {}: {}'.format(type(e).__name__, str(e)[:120])
            exp = case['expect']
            if seed is not None:
                random.seed(seed)
            if exp[0] == 'exists':
                if cli_exc is not None:
                    return 'rejected', 'command line rejects a documented invocation: {}'.format(str(cli_exc).splitlines()[0][:150])
                terms, why = candidates(exp[1], exp[2], Fcli)
                if why:
                    return 'shape', why
                a = canon(Fcli)
                first = None
                for t in terms:
                    d = diff(a, canon(env.ev(t)))
                    if d is None:
                        return None
                    first = first or d
                return first[0], 'no object of the documented shape ({} candidates) gives the formula of the command line; first candidate: {}'.format(len(terms), first[1])
            if exp[0] == 'same-as-cli':        # another command line must give the same formula
                other = [env.path(a) for a in exp[2]]
                Fexp = _cli_formula(exp[1], other, exp[3] if len(exp) > 3 else '')
            else:
                try:
                    Fexp = env.ev(exp)
                except FileNotFoundError as e:
                    if cli_exc is not None:
                        return ('trivial-both-reject',)      # graph argument refused: nothing saved, nothing to compare
                    return 'saved-file', 'the command line built a formula but did not write the file named by `save`: {}'.format(e)
                except SavedFileError as e:
                    return 'saved-file', str(e)
                except ValueError as e:
                    if cli_exc is not None:
                        return ('trivial-both-reject',)
                    return 'library-rejects', 'library call raises ValueError({}) but the command line builds a formula'.format(str(e)[:100])
            if cli_exc is not None:
                return 'rejected', 'command line rejects what the library call accepts: {}'.format(str(cli_exc).splitlines()[0][:150])
            return diff(canon(Fcli), canon(Fexp))
    finally:
        if own_fix:
            own_fix.cleanup()


_FIX = None


def _winit(fix):
    global _FIX
    _FIX = fix
    core.import_repo()


def _work(case):
    return eval_case(case, _FIX)


def replay_case(case):
    r = eval_case(case)
    if r and r != ('trivial-both-reject',):
        print('  ', r)
        return False
    return True


# ------------------------------------------------------------------------------------------
# the case table
# ------------------------------------------------------------------------------------------
def _graph_args(kind, thorough):
    """list of (tokens, term, tag)"""
    ext = {'simple': 'kthlist', 'bipartite': 'matrix', 'dag': 'kthlist'}[kind]
    specs = {
        'simple': [['complete', '4'], ['grid', '2', '3'], ['gnp', '5', '.5'], ['gnm', '5', '4'], ['empty', '3'],
                   ['gnd', '6', '3'], ['torus', '3', '3'], ['complete', '2', '3'], ['gnp', '2', '.7', '3'],
                   ['gnp', '6', '.3', 'plantclique', '3'], ['empty', '5', 'addedges', '4'], ['grid', '2', '2', 'splitedges', '2'],
                   ['complete', '1']],
        'bipartite': [['complete', '3', '2'], ['glrp', '3', '4', '.5'], ['glrd', '4', '3', '2'], ['regular', '4', '4', '2'],
                      ['shift', '3', '4', '0', '1'], ['empty', '2', '3', 'plantbiclique', '1', '2'], ['glrp', '3', '3', '.3', 'addedges', '2'],
                      ['glrm', '4', '4', '3'], ['empty', '2', '2']],
        'dag': [['pyramid', '2'], ['tree', '2'], ['path', '3'], ['path', '0']],
    }[kind]
    if not thorough:
        specs = specs[:8] if kind != 'dag' else specs[:3]
    out = []
    for i, s in enumerate(specs):
        p = '{{O}}/{}{}.{}'.format(kind[0], i, ext)
        out.append((s + ['save', p], ['graph', kind, p, ext], s[0]))
    f = {'simple': ('{D}/g.kthlist', 'kthlist'), 'bipartite': ('{D}/b.matrix', 'matrix'), 'dag': ('{D}/d.kthlist', 'kthlist')}[kind]
    out.append(([f[0]], ['graph', kind, f[0], f[1]], 'file'))
    out.append(([f[1], f[0]], ['graph', kind, f[0], f[1]], 'format+file'))
    return out


def _subsets(opts):
    for r in range(len(opts) + 1):
        for c in itertools.combinations(opts, r):
            yield list(c)


def build_cases(tier, seed):
    thorough = tier == 'thorough'
    C = []

    def add(tool, sub, variant, argv, expect, seed=None, stdin=''):
        C.append({'tool': tool, 'sub': sub, 'variant': variant, 'argv': argv, 'expect': expect, 'seed': seed, 'stdin': stdin})

    SG, BG, DG = _graph_args('simple', thorough), _graph_args('bipartite', thorough), _graph_args('dag', thorough)
    for tool in ('cnfgen', 'pbgen'):
        fmts = [[]] if not thorough else ([[], ['-of', 'opb'], ['-q', '--varnames']] if tool == 'cnfgen' else [[], ['-of', 'latex']])
        for pre in fmts:
            def A(sub, variant, argv, expect, seed=None, stdin=''):
                add(tool, sub, variant + ('' if not pre else '+' + pre[0]), pre + argv, expect, seed, stdin)
            # --- simple formulas ------------------------------------------------------
            for P, N in [(2, 1), (0, 0), (0, 3), (3, 0)]:
                A('and', '', ['and', str(P), str(N)], ['simpleformula', 'and', P, N])
                A('or', '', ['or', str(P), str(N)], ['simpleformula', 'or', P, N])
            A('true', '', ['true'], ['simpleformula', 'true', 0, 0])
            A('false', '', ['false'], ['simpleformula', 'false', 0, 0])
            # --- pigeonhole -----------------------------------------------------------
            for opts in _subsets(['--functional', '--onto']):
                kw = {'functional': '--functional' in opts, 'onto': '--onto' in opts}
                v = '+'.join(opts) or 'plain'
                for n in (0, 1, 3):
                    A('php', 'N:' + v, ['php'] + opts + [str(n)], ['call', 'PigeonholePrinciple', [n + 1, n], kw])
                for m, n in [(3, 2), (2, 3), (0, 2), (4, 4)]:
                    A('php', 'M N:' + v, ['php'] + opts + [str(m), str(n)], ['call', 'PigeonholePrinciple', [m, n], kw])
                    A('php', 'M N:' + v, ['php', str(m), str(n)] + opts, ['call', 'PigeonholePrinciple', [m, n], kw])
                for m, n, d in [(4, 3, 2), (3, 4, 1), (2, 3, 3), (3, 3, 0)]:
                    if d == n:
                        A('php', 'M N D=N:' + v, ['php'] + opts + [str(m), str(n), str(d)], ['call', 'PigeonholePrinciple', [m, n], kw], seed=11)
                    else:
                        A('php', 'M N D:' + v, ['php'] + opts + [str(m), str(n), str(d)],
                          ['exists', 'php-degree', dict(M=m, N=n, D=d, **kw)], seed=11)
                for toks, term, tag in BG:
                    A('php', 'graph:' + v, ['php'] + opts + toks, ['call', 'GraphPigeonholePrinciple', [term], kw])
            for m, n in [(3, 2), (1, 1), (2, 4), (5, 3)]:
                A('bphp', '', ['bphp', str(m), str(n)], ['call', 'BinaryPigeonholePrinciple', [m, n]])
            for p, r, h in [(2, 3, 2), (0, 0, 0), (3, 2, 2), (1, 2, 3)]:
                A('rphp', '', ['rphp', str(p), str(r), str(h)], ['call', 'RelativizedPigeonholePrinciple', [p, r, h]])
            for n, k, c in [(4, 3, 2), (0, 1, 1), (3, 2, 3), (4, 2, 1)]:
                A('cliquecoloring', '', ['cliquecoloring', str(n), str(k), str(c)], ['call', 'CliqueColoring', [n, k, c]])
            for s, k, n in [(3, 3, 4), (1, 1, 0), (2, 3, 4), (3, 2, 5)]:
                A('ram', '', ['ram', str(s), str(k), str(n)], ['call', 'RamseyNumber', [s, k, n]])
            for n in (0, 5, 13):
                A('ptn', '', ['ptn', str(n)], ['call', 'PythagoreanTriples', [n]])
            for t in [(5, 2, 3), (4, 2, 2, 2), (0, 2, 2), (6, 3, 2, 2, 3), (7, 3, 4)]:
                A('vdw', '{} colours'.format(len(t) - 1), ['vdw'] + [str(x) for x in t], ['call', 'VanDerWaerden', list(t)])
            # --- counting ---------------------------------------------------------------
            for m, p in [(4, 2), (0, 1), (5, 3), (6, 3), (3, 1)]:
                A('count', '', ['count', str(m), str(p)], ['call', 'CountingPrinciple', [m, p]])
            for n in (0, 3, 4):
                A('parity', '', ['parity', str(n)], ['call', 'CountingPrinciple', [n, 2]])
            for toks, term, tag in SG:
                A('matching', 'graph', ['matching'] + toks, ['call', 'PerfectMatchingPrinciple', [term]])
            # --- tseitin -----------------------------------------------------------------
            for toks, term, tag in SG:
                A('tseitin', 'first', ['tseitin', 'first'] + toks, ['call', 'TseitinFormula', [term, ['lit', 'FIRST']]])
                A('tseitin', 'zero', ['tseitin', 'zero'] + toks, ['call', 'TseitinFormula', [term, ['lit', 'ZERO']]])
                A('tseitin', 'one', ['tseitin', 'one'] + toks, ['call', 'TseitinFormula', [term, ['lit', 'ONE']]])
            for ch, par in (('random', None), ('randomodd', 1), ('randomeven', 0)):
                for toks, term, n in [(['complete', '4'], ['simple', 4, [(1, 2), (1, 3), (1, 4), (2, 3), (2, 4), (3, 4)]], 4),
                                      (['grid', '2', '3', 'save', '{O}/t.kthlist'], ['graph', 'simple', '{O}/t.kthlist', 'kthlist'], 6),
                                      (['{D}/g.kthlist'], ['graph', 'simple', '{D}/g.kthlist', 'kthlist'], 4)]:
                    A('tseitin', ch, ['tseitin', ch] + toks, ['exists', 'tseitin-charge', {'G': term, 'n': n, 'parity': par}], seed=5)
            for n, d in [(4, 3), (6, 3), (5, 4), (6, 4), (5, 2)]:
                A('tseitin', 'N d', ['tseitin', str(n), str(d)], ['exists', 'tseitin-charge', {'G': None, 'n': n, 'd': d, 'parity': 1}], seed=9)
            A('tseitin', 'N', ['tseitin', '6'], ['exists', 'tseitin-charge', {'G': None, 'n': 6, 'd': 4, 'parity': 1}], seed=9)
            A('tseitin', 'N', ['tseitin', '7'], ['exists', 'tseitin-charge', {'G': None, 'n': 7, 'd': 4, 'parity': 1}], seed=9)
            # --- subset cardinality --------------------------------------------------------
            for e in ([], ['-e'], ['--equal']):
                for toks, term, tag in BG:
                    A('subsetcard', 'graph:' + (e[0] if e else 'plain'), ['subsetcard'] + e + toks, ['call', 'SubsetCardinalityFormula', [term, bool(e)]])
                for n, d in [(5, None), (4, 3), (5, 2), (6, 4)]:
                    A('subsetcard', 'N d:' + (e[0] if e else 'plain'), ['subsetcard'] + e + [str(n)] + ([str(d)] if d else []),
                      ['exists', 'subsetcard-regular', {'N': n, 'd': d or 4, 'equal': bool(e)}], seed=4)
            # --- cpls / pitfall ---------------------------------------------------------------
            for a, b, c in [(2, 2, 2), (1, 1, 1), (3, 2, 4), (2, 4, 2)]:
                A('cpls', '', ['cpls', str(a), str(b), str(c)], ['call', 'CPLSFormula', [a, b, c]])
            for t in [(6, 3, 2, 2, 2), (8, 3, 3, 2, 4), (6, 4, 2, 3, 2)]:
                A('pitfall', '', ['pitfall'] + [str(x) for x in t], ['call', 'PitfallFormula', list(t)], seed=13)
            # --- ordering ----------------------------------------------------------------------
            for variant in ([], ['--total'], ['-t'], ['--smart'], ['-s'], ['--knuth2'], ['--knuth3']):
                for plant in ([], ['--plant'], ['-p']):
                    total = bool(set(variant) & {'--total', '-t'})
                    smart = bool(set(variant) & {'--smart', '-s'})
                    knuth = 2 if '--knuth2' in variant else 3 if '--knuth3' in variant else 0
                    v = '+'.join(variant + plant) or 'plain'
                    for n in (1, 3, 4):
                        A('op', 'N:' + v, ['op'] + variant + plant + [str(n)], ['call', 'OrderingPrinciple', [n, total, smart, bool(plant), knuth]])
                    A('op', 'N:' + v, ['op', '4'] + variant + plant, ['call', 'OrderingPrinciple', [4, total, smart, bool(plant), knuth]])
                    for toks, term, tag in SG[:3] + SG[-2:]:
                        A('op', 'graph:' + v, ['op'] + variant + plant + toks, ['call', 'GraphOrderingPrinciple', [term, total, smart, bool(plant), knuth]])
                    # N d with a unique d-regular graph on N vertices: the complete graph
                    for n in (3, 4, 5):
                        K = ['simple', n, [(i, j) for i in range(1, n + 1) for j in range(i + 1, n + 1)]]
                        A('op', 'N d:' + v, ['op'] + variant + plant + [str(n), str(n - 1)],
                          ['call', 'GraphOrderingPrinciple', [K, total, smart, bool(plant), knuth]], seed=3)
            # --- graph formulas -------------------------------------------------------------------
            for toks, term, tag in SG:
                for k in (1, 2, 3):
                    A('kcolor', 'graph', ['kcolor', str(k)] + toks, ['call', 'GraphColoringFormula', [term, k]])
                A('ec', 'graph', ['ec'] + toks, ['call', 'EvenColoringFormula', [term]])
                A('tiling', 'graph', ['tiling'] + toks, ['call', 'Tiling', [term]])
                for alt in ([], ['-a'], ['--alternative']):
                    for d in (1, 2):
                        A('domset', alt[0] if alt else 'plain', ['domset'] + alt + [str(d)] + toks, ['call', 'DominatingSet', [term, d], {'alternative': bool(alt)}])
                for sb in ([], ['--no-symmetry-breaking']):
                    for k in (0, 2, 3):
                        A('kclique', sb[0] if sb else 'plain', ['kclique'] + sb + [str(k)] + toks, ['call', 'CliqueFormula', [term, k], {'symbreak': not sb}])
                        if sb:
                            A('kclique', sb[0] + ':after', ['kclique', str(k)] + sb + toks, ['call', 'CliqueFormula', [term, k], {'symbreak': False}])
                            A('kclique', sb[0] + ':after', ['kclique', str(k)] + toks + sb, ['call', 'CliqueFormula', [term, k], {'symbreak': False}])
                for k in (0, 2, 3):
                    A('kcliquebin', 'graph', ['kcliquebin', str(k)] + toks, ['call', 'BinaryCliqueFormula', [term, k]])
                for k, s in [(2, 2), (3, 2), (2, 3), (0, 0)]:
                    A('ramlb', 'graph', ['ramlb', str(k), str(s)] + toks, ['call', 'RamseyWitnessFormula', [term, k, s]])
                A('iso', 'one graph', ['iso'] + toks, ['call', 'GraphAutomorphism', [term]])
            pairs = [(SG[0], SG[1]), (SG[1], SG[0]), (SG[2], SG[3]), (SG[-1], SG[0]), (SG[0], SG[-1]), (SG[4], SG[4])]
            for (t1, g1, _), (t2, g2, _) in pairs:
                t2b = [x.replace('{O}/s', '{O}/second_s') for x in t2]
                g2b = [x.replace('{O}/s', '{O}/second_s') if isinstance(x, str) else x for x in g2]
                A('iso', '-e', ['iso'] + t1 + ['-e'] + t2b, ['call', 'GraphIsomorphism', [g1, g2b]])
                A('subgraph', '-G -H', ['subgraph', '-G'] + t1 + ['-H'] + t2b, ['call', 'SubgraphFormula', [g1, g2b]])
                A('subgraph', '-H -G', ['subgraph', '-H'] + t2b + ['-G'] + t1, ['call', 'SubgraphFormula', [g1, g2b]])
            # --- pebbling ---------------------------------------------------------------------------
            for toks, term, tag in DG:
                A('peb', 'dag', ['peb'] + toks, ['call', 'PebblingFormula', [term]])
                for s in (1, 2, 3):
                    A('stone', 'dense', ['stone', str(s)] + toks, ['call', 'StoneFormula', [term, s]])
            for toks, n in [(['pyramid', '1'], 3), (['path', '2'], 3), (['tree', '1'], 3)]:
                p = '{O}/sp.kthlist'
                for s, d in [(2, 1), (3, 2), (2, 2)]:
                    A('stone', '--sparse', ['stone', str(s)] + toks + ['save', p, '--sparse', str(d)],
                      ['exists', 'stone-sparse', {'D': ['graph', 'dag', p, 'kthlist'], 'n': n, 's': s, 'd': d}], seed=6)
                    A('stone', '--sparse:before', ['stone', '--sparse', str(d), str(s)] + toks + ['save', p],
                      ['exists', 'stone-sparse', {'D': ['graph', 'dag', p, 'kthlist'], 'n': n, 's': s, 'd': d}], seed=6)
            # --- random formulas (RNG re-seeded identically) ----------------------------------------------
            for k, n, m in [(3, 6, 5), (2, 4, 0), (1, 3, 2), (3, 5, 12)]:
                for sd in (1, 42, -7):
                    A('randkcnf', 'plain', ['randkcnf', str(k), str(n), str(m)], ['call', 'RandomKCNF', [k, n, m]], seed=sd)
                    A('randkxor', 'plain', ['randkxor', str(k), str(n), str(m)], ['call', 'RandomKXOR', [k, n, m]], seed=sd)
            A('dimacs', 'file', ['dimacs', '{D}/f.cnf'], ['dimacs', '{D}/f.cnf'])
            A('dimacs', 'stdin', ['dimacs'], ['dimacs', '{D}/f.cnf'], stdin=x_cli.GOOD_FILES['f.cnf'])
    # --- transformations (cnfgen) ---------------------------------------------------------------------
    def tterm(F, name, nums):
        if name == 'none':
            return F
        if name == 'shuffle':
            return ['call', 'Shuffle', [F], {'polarity_flips': 'fixed' if '-p' in nums else 'shuffle',
                                             'variables_permutation': 'fixed' if '-v' in nums else 'shuffle',
                                             'clauses_permutation': 'fixed' if '-c' in nums else 'shuffle'}]
        if name in ('xorcomp', 'majcomp'):
            return ['call', 'VariableCompression', [F, ['graph', 'bipartite', nums[0], 'matrix'], name[:3]]]
        fn, ar = TLIB[name]
        return ['call', fn, [F] + [int(x) for x in nums[:ar]]]

    targs = {'none': [[]], 'flip': [[]], 'ite': [[]], 'or': [['2'], ['1']], 'xor': [['2'], ['3']], 'eq': [['2']], 'neq': [['3']], 'maj': [['3'], ['2']],
             'one': [['2']], 'lift': [['2']], 'atleast': [['3', '2']], 'atmost': [['3', '1']], 'exact': [['3', '2']], 'anybut': [['3', '1']],
             'shuffle': [[], ['-p'], ['-v'], ['-c'], ['-p', '-v'], ['-p', '-c'], ['-v', '-c'], ['-p', '-v', '-c']]}
    bases = [(['php', '3', '2'], ['call', 'PigeonholePrinciple', [3, 2]]), (['and', '2', '1'], ['simpleformula', 'and', 2, 1]),
             (['randkcnf', '3', '5', '4'], ['call', 'RandomKCNF', [3, 5, 4]])]
    names = sorted(targs)
    for bi, (btoks, bterm) in enumerate(bases):
        for t in names:
            for a in targs[t]:
                add('cnfgen', '-T ' + t, 'single', btoks + ['-T', t] + a, tterm(bterm, t, a), seed=21)
    # compression with an explicit mapping: and 2 1 has 3 variables; b.matrix is 3x4
    for t in ('xorcomp', 'majcomp'):
        add('cnfgen', '-T ' + t, 'mapping file', ['and', '2', '1', '-T', t, '{D}/b.matrix'], tterm(['simpleformula', 'and', 2, 1], t, ['{D}/b.matrix']))
        add('cnfgen', '-T ' + t, 'mapping file', ['and', '2', '1', '-T', t, 'matrix', '{D}/b.matrix'], tterm(['simpleformula', 'and', 2, 1], t, ['{D}/b.matrix']))
        add('cnfgen', '-T ' + t, 'mapping construction', ['and', '2', '1', '-T', t, 'glrd', '3', '4', '2', 'save', '{O}/m.matrix'],
            tterm(['simpleformula', 'and', 2, 1], t, ['{O}/m.matrix']))
        for N, d in [(3, 3), (3, 2), (4, 1), (3, None)]:
            add('cnfgen', '-T ' + t, 'N d', ['and', '1', '1', '-T', t, str(N)] + ([str(d)] if d else []),
                ['exists', 'compression', {'F': ['simpleformula', 'and', 1, 1], 'V': 2, 'N': N, 'd': d or 3, 'function': t[:3]}], seed=8)
    rng = random.Random(seed + 17)
    chains = [(a, b) for a in names for b in names]
    triples = [(a, b, c) for a in names for b in names for c in names]
    triples = rng.sample(triples, 1000 if thorough else 60)
    for chain in chains + triples:
        btoks, bterm = bases[1]         # unit clauses: chains of threshold substitutions stay small
        toks, term = list(btoks), bterm
        for t in chain:
            a = targs[t][0] if t != 'shuffle' else rng.choice(targs[t])
            toks += ['-T', t] + a
            term = tterm(term, t, a)
        add('cnfgen', '-T chain', 'length {}'.format(len(chain)), toks, term, seed=33)
    # --- graph modifiers + save: the saved file must hold the graph the formula is built on -----------------
    MODS = {'simple': [('plantclique', ['3']), ('addedges', ['3']), ('splitedges', ['2'])],
            'bipartite': [('plantbiclique', ['2', '2']), ('addedges', ['3'])], 'dag': []}
    BASES = {'simple': [['grid', '2', '3'], ['gnp', '6', '.4'], ['empty', '5']] + ([['gnm', '6', '5'], ['complete', '2', '3']] if thorough else []),
             'bipartite': [['glrp', '4', '4', '.3'], ['empty', '3', '4']] + ([['glrd', '4', '5', '2'], ['shift', '4', '4', '0', '1']] if thorough else []),
             'dag': [['pyramid', '2'], ['tree', '2']] + ([['path', '3']] if thorough else [])}
    SAVEFMT = {'simple': ['kthlist', 'dimacs'], 'bipartite': ['kthlist', 'matrix'], 'dag': ['kthlist', 'dimacs']}
    USERS = {'simple': [(['kcolor', '2'], 'GraphColoringFormula', [2]), (['kclique', '3'], 'CliqueFormula', [3]),
                        (['tseitin', 'first'], 'TseitinFormula', [['lit', 'FIRST']]), (['matching'], 'PerfectMatchingPrinciple', []),
                        (['op'], 'GraphOrderingPrinciple', [])],
             'bipartite': [(['php'], 'GraphPigeonholePrinciple', []), (['subsetcard'], 'SubsetCardinalityFormula', [False])],
             'dag': [(['peb'], 'PebblingFormula', []), (['stone', '2'], 'StoneFormula', [2])]}
    n_mod = 0
    for kind in ('simple', 'bipartite', 'dag'):
        mods = MODS[kind]
        combos = [[]] + [[m] for m in mods] + [[a, b] for a in mods for b in mods if a[0] != b[0]]
        if len(mods) > 2:
            combos.append(list(mods))
        for bi, base in enumerate(BASES[kind]):
            for ci, combo in enumerate(combos):
                mtoks = [x for name, vals in combo for x in [name] + vals]
                vname = 'saved-graph:' + ('+'.join(name for name, _ in combo) or 'plain')
                for fi, fmt in enumerate(SAVEFMT[kind]):
                    path = '{{O}}/mod_{}{}_{}.{}'.format(kind[0], n_mod, fi, fmt)
                    n_mod += 1
                    layouts = [mtoks + ['save', fmt, path], mtoks + ['save', path]]
                    if combo:      # `save` written before / between the modifiers names the same graph
                        k = len(combo[0][1]) + 1
                        layouts.append(['save', path] + mtoks)
                        if len(combo) > 1:
                            layouts.append(mtoks[:k] + ['save', fmt, path] + mtoks[k:])
                    users = USERS[kind] if thorough else [USERS[kind][(bi + ci + fi + j) % len(USERS[kind])] for j in range(2)]
                    for li, lay in enumerate(layouts):
                        for ui, (pre, fn, extra) in enumerate(users):
                            for tool in (('cnfgen', 'pbgen') if (thorough or (li + ui + ci) % 3 == 0) else ('cnfgen',)):
                                add(tool, pre[0], vname, pre + base + lay, ['call', fn, [['saved', kind, path, fmt]] + extra], seed=17)
    # --- kthlist2pebbling ------------------------------------------------------------------------------
    for f in ('d.kthlist',):
        txt = x_cli.GOOD_FILES[f]
        P = ['call', 'PebblingFormula', [['graph', 'dag', '{D}/' + f, 'kthlist']]]
        add('kthlist2pebbling', 'plain', 'file', ['-i', '{D}/' + f], P)
        add('kthlist2pebbling', 'plain', 'stdin', [], P, stdin=txt)
        add('kthlist2pebbling', 'plain', 'vs cnfgen peb', ['-i', '{D}/' + f], ['same-as-cli', 'cnfgen', ['peb', 'kthlist', '{D}/' + f]])
        add('kthlist2pebbling', 'plain', 'vs cnfgen peb', ['-q', '-i', '{D}/' + f], ['same-as-cli', 'cnfgen', ['peb', '{D}/' + f]])
        for t in names:
            if t == 'shuffle':
                continue          # kthlist2pebbling has no --seed option
            for a in targs[t][:1]:
                add('kthlist2pebbling', t, 'file', ['-i', '{D}/' + f, t] + a, tterm(P, t, a))
                add('kthlist2pebbling', t, 'vs cnfgen peb', [t] + a, ['same-as-cli', 'cnfgen', ['peb', '{D}/' + f, '-T', t] + a], stdin=txt)
    return C


# the three fixed charges are written symbolically in the table; resolve them when the graph is known
def _resolve_charges(env, t):
    if isinstance(t, list) and t and t[0] == 'call' and t[1] == 'TseitinFormula' and isinstance(t[2][1], list) and t[2][1][0] == 'lit' \
            and isinstance(t[2][1][1], str):
        G = env.ev(t[2][0])
        n = G.number_of_vertices()
        ch = {'FIRST': [1] + [0] * (n - 1), 'ZERO': [0] * n, 'ONE': [1] * n}[t[2][1][1]] if n > 0 else None
        return ['call', 'TseitinFormula', [t[2][0], ['lit', ch]]]
    return t


_old_ev = Env.ev


def _ev(self, t):
    return _old_ev(self, _resolve_charges(self, t))


Env.ev = _ev


# ------------------------------------------------------------------------------------------
# printed output variants: -q / -v / --varnames / -of   (independent strict readers)
# ------------------------------------------------------------------------------------------
def eval_output(tool, opts, argv, expect, seed=None):
    core.import_repo()
    with tempfile.TemporaryDirectory() as fix:
        x_cli.make_fixtures(fix)
        env = Env(tool, fix, fix)
        a = opts + ([] if seed is None else ['--seed', str(seed)]) + [env.path(x) for x in argv]
        res = x_cli.inproc_main(tool, a, '')
        if res['rc'] != 0:
            return 'exit', 'exit status {}: {}'.format(res['rc'], res['err'][:100])
        text = res['out'].decode()
        fmt = x_cli.chosen_format(tool, a)
        if seed is not None:
            random.seed(seed)
        F = env.ev(expect)
        cls, nv, labels, rows = canon(F)
        quiet = '-q' in opts or '--quiet' in opts
        mark = x_cli.MARK[fmt]
        comments = [l for l in text.split('\n') if l.startswith(mark.strip()) and fmt != 'latex']
        if fmt == 'latex':
            ok, why = x_cli.strict_latex(text)
            if not ok:
                return 'latex', why
            has_header = 'Formula header' in text
            if has_header == quiet:
                return 'header', 'header {} although {}'.format('printed' if has_header else 'missing', 'quiet' if quiet else 'verbose')
            return None
        if fmt == 'dimacs':
            ok, why, n, cl = x_cli.strict_dimacs(text)
            got = collections.Counter(tuple(sorted(c)) for c in cl) if ok else None
            want = collections.Counter()
            for r in rows.elements():
                if r and isinstance(r[0], tuple):
                    return None      # not a clause formula: out of scope for dimacs
                want[r] += 1
        else:
            ok, why, n, cons = x_cli.strict_opb(text)
            got = collections.Counter((tuple(sorted(c[:-2])), c[-2], c[-1]) for c in cons) if ok else None
            want = collections.Counter()
            for r in rows.elements():
                if len(r) == 3 and isinstance(r[1], str):
                    want[(r[0], '=' if r[1] == '==' else r[1], r[2])] += 1
                else:
                    want[(tuple(sorted((1, l) for l in r)), '>=', 1)] += 1
        if not ok:
            return 'unreadable', why
        if n != nv:
            return 'numvar', 'output declares {} variables, library formula has {}'.format(n, nv)
        if got != want:
            return 'clauses', 'printed clauses differ from the library formula: {} vs {}'.format(list((got - want).elements())[:2], list((want - got).elements())[:2])
        hdr = [l for l in comments if re.match(r'[c*] (description|generator|command line|copyright|url)', l)]
        if bool(hdr) == quiet:
            return 'header', 'header {} although {}'.format('printed' if hdr else 'missing', 'quiet' if quiet else 'verbose')
        names = {}
        for l in comments:
            m = re.match(r'[c*] varname x?(\d+) (.*)', l)
            if m:
                names[int(m.group(1))] = m.group(2)
        if '--varnames' in opts:
            if names != {i + 1: l for i, l in enumerate(labels)}:
                return 'varnames', 'variable name map {} differs from the names {}'.format(dict(list(names.items())[:3]), labels[:3])
        elif names:
            return 'varnames', 'variable names printed without --varnames'
        return None


def replay_output(tool, opts, argv, expect, seed=None):
    r = eval_output(tool, opts, argv, expect, seed)
    if r:
        print('  ', r)
    return r is None


def bounded_output(ctx):
    fams = [(['php', '3', '2'], ['call', 'PigeonholePrinciple', [3, 2]], None),
            (['kcolor', '2', '{D}/g.kthlist'], ['call', 'GraphColoringFormula', [['graph', 'simple', '{D}/g.kthlist', 'kthlist'], 2]], None),
            (['randkcnf', '3', '6', '5'], ['call', 'RandomKCNF', [3, 6, 5]], 7),
            (['subsetcard', '{D}/b.matrix'], ['call', 'SubsetCardinalityFormula', [['graph', 'bipartite', '{D}/b.matrix', 'matrix'], False]], None)]
    n = 0
    for tool in ('cnfgen', 'pbgen'):
        formats = [[], ['-of', 'dimacs'], ['-of', 'opb'], ['-of', 'latex'], ['-l'], ['--output-format', 'opb']] if tool == 'cnfgen' else [[], ['-of', 'opb'], ['-of', 'latex'], ['--latex']]
        for f in formats:
            for v in ([], ['-q'], ['-v'], ['--quiet'], ['--verbose'], ['--varnames'], ['-q', '--varnames'], ['-v', '--varnames']):
                for argv, exp, sd in fams:
                    opts = f + v
                    ctx.case(('output', tool, tuple(opts), tuple(argv)))
                    n += 1
                    bad = eval_output(tool, opts, argv, exp, sd)
                    if bad:
                        ctx.violation('{}:output:{}:{}'.format(tool, '+'.join(o for o in opts if o.startswith('-')) or 'default', bad[0]).replace(' ', '_'),
                                      '{} {} {} :: {}'.format(tool, ' '.join(opts), ' '.join(argv), bad[1]),
                                      {'fn': 'checks.C17:replay_output', 'args': dict(tool=tool, opts=opts, argv=argv, expect=exp, seed=sd)})
    ctx.bounds['output'] = '{} printed outputs: 4 families x quiet/verbose/varnames subsets x every way to select the format, re-read by strict readers'.format(n)


def bounded_cases(ctx):
    thorough = ctx.tier == 'thorough'
    C = build_cases(ctx.tier, ctx.seed)
    ctx.rule('C17 bounded: one case = (tool, argument vector with its option subset, seed) compared with the documented library call on the same '
             'numbers and on the graphs read back from the files written by `save`; non-trivial iff a formula is built on both sides; distinct by the argument vector')
    subs = collections.Counter((c['tool'], c['sub']) for c in C)
    ctx.bounds['cases'] = '{} command lines over {} (tool, sub-command) pairs; option subsets exhaustive per sub-command; chains: all pairs of 15 transformations, {} triples'.format(
        len(C), len(subs), '1000 sampled' if thorough else '60 sampled')
    with tempfile.TemporaryDirectory(prefix='c17_') as fix:
        x_cli.make_fixtures(fix)
        with mp.Pool(x_cli.NPROC, initializer=_winit, initargs=(fix,), maxtasksperchild=500) as pool:
            res = pool.map(_work, C, chunksize=4)
    both_reject = 0
    for c, r in zip(C, res):
        trivial = r == ('trivial-both-reject',)
        ctx.case((c['tool'], tuple(c['argv']), c.get('seed')), nontrivial=not trivial)
        if trivial:
            both_reject += 1
            continue
        if r:
            key = '{}:{}:{}:{}'.format(c['tool'], c['sub'], c['variant'] or '-', r[0]).replace(' ', '_')
            ctx.violation(key, '{} {}{} :: {}'.format(c['tool'], '--seed {} '.format(c['seed']) if c.get('seed') is not None else '', ' '.join(c['argv']), r[1]),
                          {'fn': 'checks.C17:replay_case', 'args': {'case': c}})
    ctx.section('C17', cases=len(C), rejected_by_both_sides=both_reject, per_subcommand={'{} {}'.format(*k): v for k, v in sorted(subs.items())})
    for c in C[:: max(1, len(C) // 8)][:8]:
        ctx.sample({'tool': c['tool'], 'argv': c['argv'], 'expect': json.dumps(c['expect'])[:160]})


def run(ctx):
    from checks import proofs
    proofs.run_group(ctx, 'C17')
    bounded_cases(ctx)
    bounded_output(ctx)
    ctx.assume('writeGraph/readGraph round-trip the graph given on the command line (kthlist for simple graphs and DAGs, matrix for bipartite graphs): property C14')
    ctx.assume('relational check: the library generators themselves are the reference (their meaning is C01-C05); '
               'for unobservable random graphs the formula must equal the library call on one object of the documented shape')


def replay(ctx, data):
    return generic_replay(data)
