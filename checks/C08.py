"""C08 - the OPB and CNF renderings of a family are the same formula.

bounded part (relational by nature): every instance of the catalogue vlib/x_families.py is built
  (lib)  through the library with formula_class=CNF and formula_class=OPB,
  (cli)  through 'cnfgen <args>' and 'pbgen <args>' (mode='formula'),
and the two results are compared: number of variables, the list of variable names in order, and the
set of satisfying assignments (complete numpy truth tables up to 16 variables, a z3 query
"CNF xor PB satisfiable?" above).  The semantics of clauses and of pseudo-Boolean constraints
(sum of coefficients of true literals  op  value) is implemented in vlib/sat.py and x_families.z3_equivalent,
not by cnfgen.  Random instances are made comparable by seeding `random` identically before each build.
"""
import random
import tempfile

import numpy as np

from vlib import core, sat
from vlib import x_families as xf
from vlib.replay import generic_replay

LEVEL = 'exploration'

TABLE_LIMIT = 16
Z3_TIMEOUT_MS = 240000
# instances whose equivalence query is too slow for the quick tier (measured), resp. for any tier
SLOW_QUICK = {'count-12-3', 'count-10-4', 'php-40-30-5', 'bphp-33-32', 'bphp-20-17', 'subsetcard-20-6---equal'}
SLOW_ALWAYS = {'count-15-3', 'randkcnf-3-2000-8000', 'php-100-40'}


def _classes():
    core.import_repo()
    from cnfgen.formula.cnf import CNF
    from cnfgen.formula.opb import OPB
    return {'cnf': CNF, 'opb': OPB}


def _build(entry, via, cls, td, seed):
    """('ok', F) or ('exc', exception)"""
    random.seed(seed * 104729 + 7)
    try:
        if via == 'lib':
            return 'ok', xf.library_call(entry, _classes()[cls])
        argv = xf.concrete_argv(entry, td)
        if via == 'cliseed':
            # the tools' own --seed option: the ambient generator state differs between the two tools on purpose,
            # so only the seed given on the command line can make the two renderings agree
            random.seed(seed * 7919 + (11 if cls == 'cnf' else 23))
            argv = ['--seed', str(seed)] + argv
        if cls == 'cnf':
            from cnfgen.clitools.cnfgen import cli
            return 'ok', cli(['cnfgen', '-q'] + argv, mode='formula')
        from cnfgen.clitools.pbgen import cli
        return 'ok', cli(['pbgen', '-q'] + argv, mode='formula')
    except Exception as e:
        return 'exc', e


def _is_pb(F):
    return hasattr(F, 'number_of_constraints')


def eval_pair(entry, via, seed=0):
    """list of (aspect, description); empty iff the CNF and the PB rendering agree"""
    core.import_repo()
    out = []
    with tempfile.TemporaryDirectory(prefix='verif_c08_') as td:
        ka, A = _build(entry, via, 'cnf', td, seed)
        kb, B = _build(entry, via, 'opb', td, seed)
    if ka == 'exc' and kb == 'exc':
        return [('skipped', 'both refused: {}: {}'.format(type(A).__name__, str(A)[:80]))]
    if ka == 'exc' or kb == 'exc':
        side, e = ('CNF', A) if ka == 'exc' else ('pseudo-Boolean', B)
        return [('raised', 'only the {} rendering raised {}: {}'.format(side, type(e).__name__, str(e)[:200]))]
    if via == 'cli' and not _is_pb(B):
        out.append(('class', 'pbgen returned a {} object, not a pseudo-Boolean formula'.format(type(B).__name__)))
    if via == 'cli' and _is_pb(A):
        out.append(('class', 'cnfgen returned a {} object, not a CNF'.format(type(A).__name__)))
    if via == 'lib' and (not _is_pb(B) or _is_pb(A)):
        out.append(('class', 'library call with formula_class=CNF/OPB returned {} / {}'.format(type(A).__name__, type(B).__name__)))
    na, nb = A.number_of_variables(), B.number_of_variables()
    if na != nb:
        out.append(('count', 'CNF has {} variables, pseudo-Boolean formula has {}'.format(na, nb)))
        return out
    la, lb = list(A.all_variable_labels()), list(B.all_variable_labels())
    if la != lb:
        i = next((i for i in range(min(len(la), len(lb))) if la[i] != lb[i]), min(len(la), len(lb)))
        out.append(('names', 'variable names differ at position {}: CNF {} / PB {} (lengths {} and {})'.format(
            i + 1, la[i:i + 3], lb[i:i + 3], len(la), len(lb))))
    n = na
    if n <= TABLE_LIMIT:
        ta = sat.formula_table(A, n)
        tb = sat.formula_table(B, n)
        if not np.array_equal(ta, tb):
            a = int(np.flatnonzero(ta != tb)[0])
            asg = sat.assignment_of(a, n)
            out.append(('models', 'assignment {} : CNF says {}, pseudo-Boolean formula says {} ({} vs {} models)'.format(
                {la[v - 1] if v - 1 < len(la) else v: x for v, x in asg.items()}, bool(ta[a]), bool(tb[a]), int(ta.sum()), int(tb.sum()))))
    else:
        rows_a = [list(r) for r in A]
        rows_b = [list(r) for r in B]
        pb = rows_b if _is_pb(B) else [[(1, l) for l in r] + ['>=', 1] for r in rows_b]
        if _is_pb(A):       # (already reported under 'class'; compare as two PB formulas: clauses = none, all constraints xor-ed)
            cl, pb = [], None
            return out
        cl = rows_a
        diff = xf.z3_equivalent(n, cl, pb, timeout_ms=Z3_TIMEOUT_MS)
        if diff == 'unknown':
            out.append(('skipped', 'z3 undecided within {} ms on {} variables'.format(Z3_TIMEOUT_MS, n)))
        elif diff is not None:
            out.append(('models', 'z3: assignment {} satisfies exactly one of the two renderings'.format(
                {la[v - 1]: x for v, x in list(diff.items())[:30]})))
    return out


def replay_pair(entry, via, seed=0):
    return not [p for p in eval_pair(entry, via, seed) if p[0] != 'skipped']


def _worker(task):
    entry, via, seed = task
    return eval_pair(entry, via, seed)


def _map(tasks):
    import multiprocessing as mp
    import os
    if len(tasks) < 8:
        return [_worker(t) for t in tasks]
    with mp.get_context('fork').Pool(min(12, os.cpu_count() or 2)) as pool:
        return pool.map(_worker, tasks, chunksize=4)


def bounded_pairs(ctx):
    thorough = ctx.tier == 'thorough'
    small = xf.small_entries(thorough)
    real = [e for e in xf.real_entries(thorough) if (e['nvars'] or 0) <= (1300 if thorough else 250)
            and e['id'] not in SLOW_ALWAYS and (thorough or e['id'] not in SLOW_QUICK)
            and not (e['family'] in ('php', 'pitfall') and not thorough)]
    tasks = []
    for e in small:
        if e['lib'][0] is not None:
            tasks.append((e, 'lib', ctx.seed))
        tasks.append((e, 'cli', ctx.seed))
    for e in real:
        tasks.append((e, 'cli', ctx.seed))
    # random instances through the tools' --seed option (seed 0 included)
    seeded = [e for e in small + real if e.get('seeded')]
    for e in seeded[:(60 if thorough else 24)]:
        for sd in (0, 1, 42):
            tasks.append((e, 'cliseed', sd))
    res = _map(tasks)
    skipped = {}
    big = 0
    for (entry, via, seed), problems in zip(tasks, res):
        ctx.case(('pair', entry['id'], via, seed if via == 'cliseed' else None), nontrivial=(entry['nvars'] or 1) > 0)
        if (entry['nvars'] or 0) > TABLE_LIMIT:
            big += 1
        for aspect, what in problems:
            if aspect == 'skipped':
                skipped['{} {}'.format(via, ' '.join(map(str, entry['argv'])))] = what
                continue
            tool = {'lib': 'lib', 'cli': 'pbgen', 'cliseed': 'pbgen-seed'}[via]
            ctx.violation('{}:{}:{}'.format(aspect, entry['family'], tool),
                          '{} {} {}: {}'.format(via, ' '.join(map(str, entry['argv'])),
                                                [(g['type'], g.get('cli') or g['edges']) for g in entry['graphs']] or '', what),
                          {'fn': 'checks.C08:replay_pair', 'args': dict(entry=entry, via=via, seed=seed)})
    fams = sorted(set(e['family'] for e in small + real))
    ctx.bounds['pairs'] = ('{} small instances (<= {} variables: complete truth tables) through the library (CNF vs OPB class) and through cnfgen vs pbgen, '
                           '{} larger instances through cnfgen vs pbgen with a z3 equivalence query ({} comparisons above the truth-table limit); families {}; '
                           '{} instances refused by both sides').format(len(small), TABLE_LIMIT, len(real), big, fams, len(skipped))
    ctx.section('pairs', comparisons=len(tasks), refused_by_both=skipped)
    ctx.rule('C08: one case = (catalogue instance, library or command line); the CNF rendering and the pseudo-Boolean rendering are compared on variable count, '
             'ordered name list and model set; non-trivial iff the instance has at least one variable')
    ctx.sample({'instance': 'subsetcard --equal <bipartite 3x3 with 6 edges>', 'via': 'lib', 'compared': 'CNF class vs OPB class'})
    ctx.sample({'instance': 'php 3 2 --functional --onto', 'via': 'cli', 'compared': 'cnfgen vs pbgen'})
    ctx.sample({'instance': 'vdw 40 3 3 3', 'via': 'cli', 'compared': 'cnfgen vs pbgen, z3 equivalence on 120 variables'})


def run(ctx):
    from checks import proofs
    proofs.run_group(ctx, 'C08')
    core.import_repo()
    bounded_pairs(ctx)
    ctx.assume('C08: semantics of clauses and pseudo-Boolean constraints as implemented in vlib/sat.py (numpy) and x_families.z3_equivalent (z3)')
    ctx.assume('C08: seeding the `random` module identically before the two builds makes random instances comparable')


def replay(ctx, data):
    return generic_replay(data)
