"""Proof tier for the CLI helper layer (C17): uninterpreted-function symbolic execution (pyvc/ufmode.py) of every
FormulaHelper.build_formula / TransformationHelper.transform_cnf of $VERIF_REPO against the documentation
contracts of contracts/cli_helpers.py, plus structural obligations on cli() of cnfgen / pbgen / kthlist2pebbling.

run_uf(ctx, prop) records into ctx.proof and reports failed decisive obligations with ctx.violation:
    key   helper:<HelperClass>:<what>            (what: term | formula_class | attr-undefined:<a> | hasattr-never-true:<a> | ...)
          cli:<tool>:<what>
    kind  'obligation-replayed' when a concrete command line exhibiting the difference was synthesised from the
          path condition and confirmed by running the REAL cli() against the documented library call,
          else 'obligation-no-input' (replay carries helper, path condition, expected and observed terms).
UNSUPPORTED helpers: PROOF-DEGRADED line, listed in ctx.proof['unsupported'], their obligations are not counted.
Zero helpers / zero obligations: RuntimeError (exit 3).
"""
import importlib
import io
import contextlib
import os
import random
import time

import z3

from vlib import core
from pyvc import ufmode as U

MIN_HELPERS = 30          # committed minimum (49 on the pinned tree); fewer is a failure of the check, not a pass
MIN_OBLIGATIONS = 200
REPLAY_SEED = 20260101


# ---------------------------------------------------------------------------------------------------------
# native replay: real cli(argv, mode='formula') vs the documented library call
# ---------------------------------------------------------------------------------------------------------
def _content(F):
    body = list(F.constraints()) if hasattr(F, 'constraints') else list(F.clauses())
    return (type(F).__name__, F.number_of_variables(), list(F.all_variable_labels()), [repr(c) for c in body])


def _native(t, bind):
    """evaluate a term (json form) with the real library"""
    import builtins
    if 'c' in t:
        return t['c']
    if 's' in t:
        return bind[t['s']]
    if 'g' in t:
        mod, name = t['g']
        if mod.startswith('ext:'):
            return getattr(importlib.import_module(mod[4:]), name)
        return getattr(importlib.import_module(mod[:-3].replace('/', '.').replace('.__init__', '')), name)
    if 'app' in t:
        f = _native(t['app'], bind)
        pos, kw, seen_var = [], {}, False
        named = []
        for n, a in t['args']:
            v = _native(a, bind)
            if n.startswith('**'):
                kw.update(v)
            elif n.startswith('*'):
                pos = [x for _, x in named] + pos + list(v)      # parameters before *args go positionally
                named, seen_var = [], True
            elif n.startswith('_'):
                pos.append(v)
            elif seen_var:
                kw[n] = v
            else:
                named.append((n, v))
        kw.update(dict(named))
        return f(*pos, **kw)
    if 'op' in t:
        op = t['op']
        a = [_native(x, bind) for x in t['args']]
        kw = {n: _native(x, bind) for n, x in t['kw']}
        if op == 'list':
            out = []
            for x, src in zip(a, t['args']):
                out.extend(x) if src.get('op') == 'star' else out.append(x)
            return out
        if op == 'tuple':
            out = []
            for x, src in zip(a, t['args']):
                out.extend(x) if src.get('op') == 'star' else out.append(x)
            return tuple(out)
        if op == 'star':
            return list(a[0])
        if op.startswith('method:'):
            return getattr(a[0], op[7:])(*a[1:], **kw)
        if op.startswith('builtin:'):
            return getattr(builtins, op[8:])(*a, **kw)
        if op == 'neg':
            return -a[0]
        return {'+': lambda x, y: x + y, '-': lambda x, y: x - y, '*': lambda x, y: x * y, '//': lambda x, y: x // y,
                '%': lambda x, y: x % y}[op](*a)
    raise ValueError('term not natively evaluable: {}'.format(t))


def _bindings(symbols, tool):
    cnfgen = core.import_repo()
    from cnfgen.clitools.graph_args import make_graph_from_spec
    bind = {}
    for name, b in symbols.items():
        if 'int' in b:
            bind[name] = b['int']
        elif 'str' in b:
            bind[name] = b['str']
        elif 'list' in b:
            bind[name] = list(b['list'])
        elif 'graph' in b:
            bind[name] = make_graph_from_spec(b['graph'][0], list(b['graph'][1]))
    if tool == 'pbgen':
        from cnfgen.formula.opb import OPB
        bind['formula_class'] = OPB
    else:
        bind['formula_class'] = cnfgen.CNF
    return bind


def replay_cli(tool, argv, expected, symbols, base=None, helper=None, cond=None):
    """True iff the property holds: cli(argv) builds the same formula as the documented library call"""
    core.import_repo()
    cli = importlib.import_module('cnfgen.clitools.' + tool).cli
    err = io.StringIO()
    with contextlib.redirect_stderr(err):
        bind = _bindings(symbols, tool)
        if base is not None:
            bind['F'] = importlib.import_module('cnfgen.clitools.cnfgen').cli(list(base), mode='formula')
        random.seed(REPLAY_SEED)          # random generators / transformations: same draws on both sides
        want = _native(expected, bind)
        random.seed(REPLAY_SEED)
        got = cli(list(argv), mode='formula')
    a, b = _content(got), _content(want)
    if a != b:
        what = 'class {} vs {}'.format(a[0], b[0]) if a[0] != b[0] else 'variables' if a[1:3] != b[1:3] else 'clauses/constraints'
        print('  {} {}: differs from the documented library call in {}'.format(tool, ' '.join(argv[1:]), what))
    return a == b


GRAPH_TOKENS = {'simple': [['complete', '4'], ['grid', '2', '3'], ['complete', '5']],
                'bipartite': [['complete', '3', '4'], ['complete', '2', '5']],
                'dag': [['pyramid', '2'], ['path', '4']]}


def _evaluable(t):
    for s in U.subterms(t):
        if isinstance(s, (U.Wild, U.Opaque)):
            return False
        if isinstance(s, U.Glob) and s.mod == 'ext:random':
            return False
        if isinstance(s, U.Sym) and (s.ty.startswith('file') or s.ty == 'any' and s.name not in ('formula_class',)) and s.name != 'F':
            return False
    return True


def synthesise(rep, path, spec, tool):
    """concrete argv + bindings for the conjunction of the code path and the documented case; None if not possible"""
    if path is None or spec is None or not isinstance(spec.term, U.Term) or not _evaluable(spec.term):
        return None
    if not rep.cli:
        return None
    ex, ns = rep.ex, rep.ex.ns
    s = z3.Solver()
    s.set('timeout', 3000)
    for c in ns.constraints + list(path.pc) + list(spec.pc):
        s.add(c)
    ints = []
    for e in U._all_entries(rep.shape):
        if e.action == 'store' and e.type == 'int' and e.nargs in (None, '?'):
            v = z3.Int('v!' + e.key)
            ints.append(v)
            s.add(v >= 2, v <= 9)
    s.push()
    if len(ints) > 1:
        s.add(z3.Distinct(*ints))
    if s.check() != z3.sat:
        s.pop()
        if s.check() != z3.sat:
            return None
    m = s.model()

    def given(e):
        v = m.eval(ns.given(e), model_completion=True)
        return z3.is_true(v)
    symbols, flags, poss, opts = {}, [], [], []
    gcount = {}

    def tokens(e):
        if e.action == 'graph':
            pool = GRAPH_TOKENS[e.graph_kind]
            k = gcount.get(e.graph_kind, 0)
            gcount[e.graph_kind] = k + 1
            tok = pool[k % len(pool)]
            symbols[e.key] = {'graph': [e.graph_kind, tok]}
            return list(tok)
        if e.action == 'store' and e.type == 'int' and e.nargs in (None, '?'):
            v = m.eval(z3.Int('v!' + e.key), model_completion=True).as_long()
            symbols[e.key] = {'int': v}
            return [str(v)]
        if e.action == 'store' and e.type == 'int' and e.nargs in ('*', '+'):
            symbols[e.key] = {'list': [3]}
            return ['3']
        if e.action == 'store' and e.type == 'str' and e.choices:
            v = m.eval(z3.String('s!' + e.key), model_completion=True).as_string()
            if v not in e.choices:
                v = e.choices[0]
            symbols[e.key] = {'str': v}
            return [v]
        raise KeyError(e.key)
    try:
        for e in rep.shape.entries:
            if e.action == 'alts':
                k = m.eval(ns.alt_var[e.key], model_completion=True).as_long()
                alt = e.alts[k]
                if alt.attrs:
                    return None
                for x in alt.entries:
                    if x.nargs == '?' and not given(x):
                        continue
                    poss.extend(tokens(x))
            elif e.optional:
                if not given(e):
                    continue
                if e.action in ('store_true', 'store_false', 'store_const'):
                    flags.append(e.names[0])
                else:
                    opts.extend([e.names[0]] + tokens(e))
            else:
                if e.nargs == '?' and not given(e):
                    continue
                poss.extend(tokens(e))
    except KeyError:
        return None
    sub = [rep.cli] + flags + poss + opts
    if rep.kind == 'formula':
        return {'tool': tool, 'argv': [tool] + sub, 'expected': U.term_to_json(spec.term), 'symbols': symbols,
                'helper': rep.name, 'cond': path.cond()}
    base = ['cnfgen', 'php', '3', '2']
    return {'tool': 'cnfgen', 'argv': base + ['-T'] + sub, 'expected': U.term_to_json(spec.term), 'symbols': symbols,
            'base': base, 'helper': rep.name, 'cond': path.cond()}


def _confirmed(args):
    """the synthesised command line really exhibits the difference on the tree under check"""
    try:
        with contextlib.redirect_stdout(io.StringIO()):
            return replay_cli(**args) is False
    except Exception:
        return False


# ---------------------------------------------------------------------------------------------------------
# the tier
# ---------------------------------------------------------------------------------------------------------
def _key(o):
    what = o.kind if o.kind in ('term', 'formula_class', 'frame', 'reach') else o.name.split(':path')[0]
    if o.kind == 'covered':
        what = 'undocumented-path'
    if o.kind == 'refusal':
        what = 'unexpected-refusal'
    return 'helper:{}:{}'.format(o.helper, what)


def run_uf(ctx, prop='C17', conformance_runs=True):
    from contracts import cli_helpers as K
    t0 = time.time()
    src = U.Src(core.REPO)
    p = ctx.proof
    gl = U.global_dests(src, 'cnfgen/clitools/cnfgen.py', 'setup_command_line_parsers') | \
        U.global_dests(src, 'cnfgen/clitools/kthlist2pebbling.py', 'setup_command_line')
    helpers = U.discover(src)
    if len(helpers) < MIN_HELPERS:
        raise RuntimeError('vacuity guard: only {} CLI helpers found under {}/{} (committed minimum {})'.format(
            len(helpers), core.REPO, U.HELPER_DIR, MIN_HELPERS))
    nob = nok = nhelp = 0
    reports = []
    # helpers that build their formula by hand (no library call to equate with) may be under a pyvc contract instead
    from pyvc import run as _pyrun
    from checks import proofs as _proofs
    _pyvc_keys = {k for k, c in _pyrun.load_contracts(_proofs._all_contract_modules())[0].items() if 'C17' in c.get('property', [])}
    for rel, cls, kind, cli in helpers:
        fname = '{}:{}.{}'.format(rel, cls.name, 'build_formula' if kind == 'formula' else 'transform_cnf')
        rep = U.check_helper(src, rel, cls, kind, cli, K.UF_CONTRACTS.get(cls.name), gl)
        reports.append(rep)
        if rep.unsupported and (rel, '{}.{}'.format(cls.name, 'build_formula' if kind == 'formula' else 'transform_cnf')) in _pyvc_keys:
            p.setdefault('by_pyvc', []).append(fname)      # decided by the pyvc contract of this very function (contracts/cli_simple.py)
            continue
        if rep.unsupported:
            why = rep.unsupported
            if cls.name in K.NO_LIBRARY_CALL:
                why += ' [{}]'.format(K.NO_LIBRARY_CALL[cls.name])
            p['unsupported'].append({'function': fname, 'reason': why})
            print('PROOF-DEGRADED {}: helper left the supported subset of the uf tier ({}); decided by the bounded tier only'.format(
                cls.name, why))
            continue
        if rep.stale:
            p['undecided'].append({'function': fname, 'note': rep.stale})
            print('PROOF-DEGRADED {}: contract is stale, {}; its obligations are not counted'.format(cls.name, rep.stale))
            continue
        if not rep.obligations:
            raise RuntimeError('vacuity guard: zero obligations generated for ' + fname)
        nhelp += 1
        p['functions'].append(fname)
        p['vacuity_guards'] += 1
        failed = {}
        for o in rep.obligations:
            nob += 1
            if o.ok:
                nok += 1
            elif o.decisive:
                failed.setdefault(_key(o), []).append(o)
        for key, obs in failed.items():
            _report(ctx, rep, key, obs)
    # cli() level
    for o in U.check_cli_structure(src):
        fname = o.helper + ':' + o.name
        if o.ok is None:
            p['undecided'].append({'function': fname, 'note': o.detail})
            print('PROOF-DEGRADED {}: structural pattern not recognised ({}); decided by the bounded tier only'.format(fname, o.detail))
            continue
        nob += 1
        if o.ok:
            nok += 1
        else:
            ctx.violation('{}:{}'.format(o.helper, o.name),
                          'structural obligation [{}] on cli() of {} is contradicted by the source: {}'.format(o.name, o.helper, o.detail),
                          {'tool': o.helper, 'obligation': o.name, 'detail': o.detail}, kind='obligation-no-input')
    if 'cli:structure' not in p['functions']:
        p['functions'].append('cli:structure')
    if nhelp == 0 or nob < MIN_OBLIGATIONS:
        raise RuntimeError('vacuity guard: {} helpers under contract / {} obligations (committed minimum {})'.format(
            nhelp, nob, MIN_OBLIGATIONS))
    p['obligations'] += nob
    p['discharged'] += nok
    p['by_backend']['uf-term-equality'] = p['by_backend'].get('uf-term-equality', 0) + nok
    p['solver_s'] += time.time() - t0
    ctx.section('uf_tier', helpers=len(helpers), under_contract=nhelp,
                unsupported=[r.name for r in reports if r.unsupported], obligations=nob, discharged=nok,
                code_paths=sum(len(r.paths) for r in reports), contract_paths=sum(len(r.spec_paths) for r in reports),
                wall_s=round(time.time() - t0, 2))
    ctx.assume('ufmode: home-made symbolic executor over the real AST of cnfgen/clihelpers (pyvc/ufmode.py); library generators are '
               'uninterpreted; argparse semantics of add_argument (dest/default/nargs/store_*/exclusive groups) modelled as documented '
               'by argparse; compose_two_parsers and the graph actions recognised structurally in the real source; the token level of '
               'custom actions (PHPArgs, is-first-a-number test) is bounded-tier only; method calls on values are assumed pure')
    if conformance_runs:
        conformance(ctx, reports)
    ctx.assume('contracts/cli_helpers.py: written from the help texts (anchors re-checked against the real help strings on every run)')
    return reports


def _report(ctx, rep, key, obs):
    meth = 'build_formula' if rep.kind == 'formula' else 'transform_cnf'

    def text(o, n):
        return 'obligation [{}:{}] of {}.{} failed ({} path(s)): {}'.format(o.kind, o.name, rep.name, meth, n, o.detail)
    # try to turn one of the failing paths into a concrete command line on the real CLI; an obligation without a
    # path of its own (attribute hazards) borrows the failing term paths of the same helper
    cands = [o for o in obs if o.data.get('spec') is not None]
    if not cands:
        cands = [o for o in rep.obligations if not o.ok and o.kind in ('term', 'formula_class') and o.data.get('spec') is not None]
    for cand in cands:
        path, spec = cand.data.get('path'), cand.data.get('spec')
        tool = 'pbgen' if cand.kind == 'formula_class' else 'cnfgen'
        try:
            args = synthesise(rep, path, spec, tool)
        except Exception:
            args = None
        if args and _confirmed(args):
            first = text(cand, len(obs)) if cand in obs else text(obs[0], len(obs))
            ctx.violation(key, first + ' :: concrete input on the real CLI: `{}` differs from the documented {}'.format(
                ' '.join(args['argv']), U.show(spec.term)), {'fn': 'checks.proofs_uf:replay_cli', 'args': args},
                kind='obligation-replayed')
            return
    o = obs[0]
    ctx.violation(key, text(o, len(obs)), {'helper': rep.name, 'obligation': '{}:{}'.format(o.kind, o.name),
                                           'path_condition': o.data.get('cond'), 'documented_case': o.data.get('spec_cond'),
                                           'expected': o.data.get('expected'), 'observed': o.data.get('observed'),
                                           'diffs': o.data.get('diffs')}, kind='obligation-no-input')


def replay(ctx, data):
    from vlib.replay import generic_replay
    return generic_replay(data)


def conformance(ctx, reports, limit=120):
    """encoding conformance: for proved paths whose documented term is natively evaluable, a command line synthesised from
    the path condition is run through the REAL cli() and compared with the documented library call.  A disagreement
    means the model (shape / executor / contract) or the token layer is off: reported as PROOF-DEGRADED, never as a
    verdict of this tier (the bounded tier decides)."""
    runs = bad = skipped = 0
    refused = []
    for rep in reports:
        if rep.unsupported or rep.stale or any(not o.ok for o in rep.obligations):
            continue
        ex = rep.ex
        for path in [q for q in rep.paths if q.kind == 'return']:
            if runs >= limit:
                break
            ex.pc = []
            compat = [q for q in rep.spec_paths if ex.feasible(path.pc + q.pc)]
            if not compat:
                continue
            try:
                args = synthesise(rep, path, compat[0], 'cnfgen')
            except Exception:
                args = None
            if not args:
                continue
            try:
                with contextlib.redirect_stdout(io.StringIO()):
                    ok = replay_cli(**args)
            except Exception as e:
                skipped += 1          # the synthesised numbers are refused by the generator (e.g. not a power of two)
                refused.append('{}: {}'.format(' '.join(args['argv']), str(e).strip().splitlines()[0][:80] if str(e).strip() else type(e).__name__))
                continue
            runs += 1
            if not ok:
                bad += 1
                ctx.proof['undecided'].append({'function': rep.name, 'note': 'encoding conformance: `{}` differs from {}'.format(
                    ' '.join(args['argv']), U.show(compat[0].term))})
                print('PROOF-DEGRADED {}: encoding conformance run `{}` disagrees with the proved term {}; decided by the bounded tier'.format(
                    rep.name, ' '.join(args['argv']), U.show(compat[0].term)))
    ctx.proof['conformance_runs'] += runs
    ctx.section('uf_conformance', runs=runs, disagreements=bad, refused_by_generator=refused)
    return runs, bad, skipped
