"""C05 - substitution, lifting, compression and flip compose the formula with the gadget.

bounded part: small CNFs (empty clause, unused variables, repeated/opposite literals, named variables)
  x every transformation x arity k x threshold x compression graph; EVERY assignment of the transformed
  formula is compared with F evaluated on the induced assignment (gadget applied block by block),
  and the number of variables with the documented one.  Oracle: numpy truth tables, written from the
  property statement (vlib/x_transform.py); cnfgen is only used to build F and to run the transformation.
"""
import itertools
import multiprocessing
import os
import random
import tempfile

import numpy as np

from vlib import core, sat
from vlib import x_transform as xt
from vlib.replay import generic_replay

LEVEL = 'proof'

BLOCK = ('xor', 'or', 'maj', 'eq', 'neq', 'eq_invert', 'one')
THRESH = ('exact', 'atleast', 'atmost', 'anybut')
OPNAME = {'<': 'lt', '>': 'gt', '<=': 'le', '>=': 'ge', '==': 'eq', '!=': 'ne'}


# ------------------------------------------------------------------ running one transformation
def _apply(F, spec):
    core.import_repo()
    from cnfgen.transformations import substitutions as S
    t = spec['t']
    k = spec.get('k')
    if t == 'xor':
        return S.XorSubstitution(F, k)
    if t == 'or':
        return S.OrSubstitution(F, k)
    if t == 'maj':
        return S.MajoritySubstitution(F, k)
    if t == 'eq':
        return S.AllEqualSubstitution(F, k)
    if t == 'neq':
        return S.NotAllEqualSubstitution(F, k)
    if t == 'eq_invert':
        return S.AllEqualSubstitution(F, k, invert=True)
    if t == 'one':
        return S.ExactlyOneSubstitution(F, k)
    if t == 'exact':
        return S.ExactlyKSubstitution(F, k, spec['c'])
    if t == 'atleast':
        return S.AtLeastKSubstitution(F, k, spec['c'])
    if t == 'atmost':
        return S.AtMostKSubstitution(F, k, spec['c'])
    if t == 'anybut':
        return S.AnythingButKSubstitution(F, k, spec['c'])
    if t == 'linear':
        return S.LinearSubstitution(F, k, spec['op'], spec['c'])
    if t == 'ite':
        return S.IfThenElseSubstitution(F)
    if t == 'lift':
        return S.FormulaLifting(F, k)
    if t == 'flip':
        return S.FlipPolarity(F)
    if t in ('xorcomp', 'majcomp'):
        B = xt.bipartite(spec['L'], spec['R'], [tuple(e) for e in spec['edges']], spec.get('gkind', 'cnfgen'))
        return S.VariableCompression(F, B, 'xor' if t == 'xorcomp' else 'maj')
    raise ValueError(t)


def _roles_by_label(T, n, markers):
    """positions (1-based variables) of the new variables whose label carries each role marker, in order.
    markers: dict role -> predicate on the label.  None if the labels do not tell the roles apart."""
    try:
        labels = list(T.all_variable_labels())
    except Exception:
        return None
    if len(labels) != n:
        return None
    out = {r: [] for r in markers}
    for i, lab in enumerate(labels, start=1):
        hits = [r for r, p in markers.items() if p(lab)]
        if len(hits) != 1:
            return None
        out[hits[0]].append(i)
    return out


def _induced(spec, N, T, n, cols, size):
    """(side condition vector, {v: boolean column of original variable v}) for the transformed formula T
    over n variables; written from the property statement / documentation"""
    t = spec['t']
    side = np.ones(size, dtype=bool)
    ind = {}
    if t in BLOCK or t in THRESH or t == 'linear':
        k = spec['k']
        for v in range(1, N + 1):
            cnt = xt.count_cols(cols, size, range((v - 1) * k + 1, v * k + 1))
            ind[v] = xt.gadget_value(t, cnt, k, spec.get('op'), spec.get('c'))
    elif t == 'flip':
        for v in range(1, N + 1):
            ind[v] = ~cols[v]
    elif t == 'ite':
        # 'if x then y else z' : the three new variables of an original one are told apart by their labels
        roles = _roles_by_label(T, n, {'i': lambda s: s.rstrip('}').endswith('^{i'),
                                        't': lambda s: s.rstrip('}').endswith('^{t'),
                                        'e': lambda s: s.rstrip('}').endswith('^{e')})
        if roles is None or any(len(roles[r]) != N for r in 'ite'):
            roles = {'i': list(range(1, N + 1)), 't': list(range(N + 1, 2 * N + 1)), 'e': list(range(2 * N + 1, 3 * N + 1))}
        for v in range(1, N + 1):
            x, y, z = cols[roles['i'][v - 1]], cols[roles['t'][v - 1]], cols[roles['e'][v - 1]]
            ind[v] = (x & y) | (~x & z)
    elif t == 'lift':
        k = spec['k']
        roles = _roles_by_label(T, n, {'X': lambda s: s.startswith('X_'), 'Y': lambda s: s.startswith('Y_')})
        if roles is None or len(roles['X']) != N * k or len(roles['Y']) != N * k:
            roles = {'X': [(v - 1) * 2 * k + i for v in range(1, N + 1) for i in range(1, k + 1)],
                     'Y': [(v - 1) * 2 * k + k + i for v in range(1, N + 1) for i in range(1, k + 1)]}
        for v in range(1, N + 1):
            X = roles['X'][(v - 1) * k: v * k]
            Y = roles['Y'][(v - 1) * k: v * k]
            side &= xt.count_cols(cols, size, Y) == 1
            val = np.zeros(size, dtype=bool)
            for x, y in zip(X, Y):
                val |= cols[x] & cols[y]       # the copy selected by the (unique) true selector
            ind[v] = val
    elif t in ('xorcomp', 'majcomp'):
        nb = {v: [] for v in range(1, N + 1)}
        for u, w in spec['edges']:
            nb[u].append(w)
        for v in range(1, N + 1):
            cnt = xt.count_cols(cols, size, sorted(set(nb[v])))
            d = len(set(nb[v]))
            ind[v] = (cnt % 2 == 1) if t == 'xorcomp' else (2 * cnt >= d)
    else:
        raise ValueError(t)
    return side, ind


def expected_numvar(spec, N):
    t = spec['t']
    if t in BLOCK or t in THRESH or t == 'linear':
        return spec['k'] * N
    if t == 'ite':
        return 3 * N
    if t == 'lift':
        return 2 * spec['k'] * N
    if t == 'flip':
        return N
    return spec['R']


def eval_case(clauses, nvars, naming, spec, result=None):
    """list of (kind, description) problems; kind in numvar / semantics / raised.  `result` = an already
    transformed formula given as (numvar, clauses, labels-less) is not supported: always runs cnfgen."""
    F = xt.build_formula(clauses, nvars, naming)
    try:
        T = _apply(F, spec)
        n = T.number_of_variables()
        tcl = [list(c) for c in T]
    except Exception as e:
        return [('raised', 'raised {}: {}'.format(type(e).__name__, e))]
    return _judge(clauses, nvars, spec, T, n, tcl)


def _judge(clauses, nvars, spec, T, n, tcl):
    bad = []
    want_n = expected_numvar(spec, nvars)
    if n != want_n:
        bad.append(('numvar', 'result has {} variables, documented {}'.format(n, want_n)))
    top = max([abs(l) for c in tcl for l in c] + [0])
    nn = max(n, want_n, top)
    if nn > 20:
        raise RuntimeError('case too large for the truth table oracle')
    size = 1 << nn
    cols = sat.columns(nn)
    got = sat.cnf_table(nn, tcl, cols)
    side, ind = _induced(spec, nvars, T, nn, cols, size)
    want = side & xt.eval_cnf_cols(ind, size, clauses)
    if not np.array_equal(want, got):
        a = int(np.flatnonzero(want != got)[0])
        bad.append(('semantics', 'assignment {} of the result: result says {}, F on the induced assignment {} says {}'.format(
            sat.assignment_of(a, nn), bool(got[a]), {v: bool(ind[v][a]) for v in ind}, bool(want[a]))))
    return bad


def replay_case(clauses, nvars, naming, spec):
    return not eval_case(clauses, nvars, naming, spec)


# ------------------------------------------------------------------ enumeration
def transformation_specs(N, thorough, light=False):
    """every transformation x arity x threshold (no compression)"""
    kmax = 4 if thorough and N <= 3 else 3
    out = []
    for k in range(1, kmax + 1):
        if light and k == kmax and kmax > 2:
            continue
        for t in BLOCK:
            out.append({'t': t, 'k': k})
        for c in range(-1, k + 2):
            for t in THRESH:
                out.append({'t': t, 'k': k, 'c': c})
            for op in ('<', '>') + (('==', '<=', '>=', '!=') if c == 1 else ()):
                out.append({'t': 'linear', 'k': k, 'op': op, 'c': c})
    out.append({'t': 'ite'})
    for k in (1, 2, 3) if thorough and N <= 2 else (1, 2):
        out.append({'t': 'lift', 'k': k})
    out.append({'t': 'flip'})
    return out


def spec_key(spec):
    return ':'.join(str(spec[x]) for x in ('t', 'k', 'op', 'c', 'L', 'R', 'edges', 'gkind') if x in spec)


def vkey(spec, kind):
    """coarse violation key: transformation [operator] : what fails"""
    t = spec['t']
    if t == 'linear':
        t = 'linear[{}]'.format(OPNAME[spec['op']])
    return '{}:{}'.format(t, kind)


def _clause_pool(nv, width, repeats=True):
    pool = [l for v in range(1, nv + 1) for l in (v, -v)]
    out = []
    for w in range(width + 1):
        it = itertools.product(pool, repeat=w) if repeats else itertools.combinations(pool, w)
        out.extend(list(c) for c in it)
    return out


def formulas(thorough, rng):
    """(clauses, nvars, naming) - see ctx.bounds['formulas']"""
    out = []
    for n in range(0, 4):
        out.append(([], n, 'plain'))
        out.append(([[]], n, 'plain'))
    p3 = _clause_pool(3, 3)
    for c in p3:                      # every single clause (ordered, with repetitions) over 3 variables
        top = max([abs(l) for l in c] + [0])
        out.append(([c], 3, 'plain'))
        if top < 3:
            out.append(([c], top, 'plain'))
    p2 = _clause_pool(2, 2)
    for c1 in p2:                     # every pair of clauses of width <= 2 over 2 variables
        for c2 in p2:
            out.append(([c1, c2], 2, 'plain'))
    for c1 in p2[:7]:
        for c2 in p2[:7]:
            out.append(([c1, c2], 3, 'ctor'))
    # named variables (labels with braces; a named variable after anonymous ones)
    for c in _clause_pool(3, 2, repeats=False):
        out.append(([c, [-1, 3]], 3, 'named'))
        out.append(([c], 3, 'gap'))
    out.append(([[1], [-1]], 1, 'named'))
    out.append(([[1, -2]], 2, 'gap'))
    p3n = _clause_pool(3, 3, repeats=False)
    nrand = 3000 if thorough else 1000
    for _ in range(nrand):            # three clauses of width <= 3 over 3 variables
        out.append(([list(rng.choice(p3 if rng.random() < .3 else p3n)) for _ in range(3)], 3, 'plain'))
    if thorough:
        p32 = _clause_pool(3, 2)
        for c1 in p32:
            for c2 in p32:
                out.append(([c1, c2], 3, 'plain'))
        for cs in itertools.product(p2, repeat=3):
            out.append(([list(c) for c in cs], 2, 'plain'))
        for _ in range(300):          # four variables
            out.append(([list(rng.choice(_clause_pool(4, 2))) for _ in range(3)], 4, 'plain'))
    return out


def compression_cases(thorough, rng):
    """(clauses, nvars, naming, spec) for the two compressions"""
    from vlib import enumerate as en
    out = []

    def graphs(L, R):
        return [e for _, _, e in en.bipartite_graphs(L, R)]
    # L = 0, 1
    for R in range(0, 4):
        for f in ('xorcomp', 'majcomp'):
            out.append(([], 0, 'plain', {'t': f, 'L': 0, 'R': R, 'edges': []}))
            out.append(([[]], 0, 'plain', {'t': f, 'L': 0, 'R': R, 'edges': []}))
            for e in graphs(1, R):
                for cl in ([[1]], [[-1]], [[1], [-1]], [[1, -1]], [], [[]], [[1, 1]]):
                    out.append((cl, 1, 'plain', {'t': f, 'L': 1, 'R': R, 'edges': e}))
    # L = 2: all graphs with R <= 3, every pair of clauses of width <= 2 for R <= 2, single clauses for R = 3
    p2 = _clause_pool(2, 2)
    for R in range(0, 4):
        for e in graphs(2, R):
            for f in ('xorcomp', 'majcomp'):
                sp = {'t': f, 'L': 2, 'R': R, 'edges': e}
                for c1 in p2:
                    out.append(([c1], 2, 'plain', sp))
                if R <= 2 or thorough:
                    for c1 in p2[1:]:
                        for c2 in p2[1:]:
                            out.append(([c1, c2], 2, 'plain', sp))
    # L = 3: all graphs with R <= 3, every single clause of width <= 3 (distinct literals
    # quick / ordered with repetitions thorough) and a few three-clause formulas
    p3 = _clause_pool(3, 3) if thorough else _clause_pool(3, 3, repeats=False)
    three = [[list(rng.choice(p3)) for _ in range(3)] for _ in range(6)]
    for R in range(0, 4):
        gs = graphs(3, R)
        for e in gs:
            for f in ('xorcomp', 'majcomp'):
                sp = {'t': f, 'L': 3, 'R': R, 'edges': e}
                for c in p3:
                    out.append(([c], 3, 'plain', sp))
                for cs in three:
                    out.append((cs, 3, 'plain', sp))
    # wider right side, networkx input, named variables
    for _ in range(400 if thorough else 60):
        L = rng.choice([2, 3, 4])
        R = rng.choice([4, 5, 6])
        e = [(u, v) for u in range(1, L + 1) for v in range(1, R + 1) if rng.random() < .5]
        cs = [list(rng.choice(_clause_pool(L, 2))) for _ in range(3)]
        for f in ('xorcomp', 'majcomp'):
            out.append((cs, L, rng.choice(['plain', 'named', 'gap']),
                        {'t': f, 'L': L, 'R': R, 'edges': e, 'gkind': rng.choice(['cnfgen', 'nx'])}))
    return out


def nontrivial(clauses, spec):
    return any(len(c) > 0 for c in clauses)


def _work(chunk):
    """chunk: list of (clauses, nvars, naming, [specs] or (thorough, light)) -> list of (clauses, nvars, naming, spec, kind, what)"""
    out = []
    for clauses, nvars, naming, specs in chunk:
        if isinstance(specs, tuple):
            specs = transformation_specs(nvars, *specs)
        for spec in specs:
            for kind, what in eval_case(clauses, nvars, naming, spec):
                out.append((clauses, nvars, naming, spec, kind, what))
    return out


def _chunks(items, size):
    for i in range(0, len(items), size):
        yield items[i:i + size]


def _report(ctx, results):
    for clauses, nvars, naming, spec, kind, what in results:
        ctx.violation(vkey(spec, kind),
                      '{} on F={} with {} variables ({}): {}'.format(spec_key(spec), clauses, nvars, naming, what),
                      {'fn': 'checks.C05:replay_case', 'args': dict(clauses=clauses, nvars=nvars, naming=naming, spec=spec)})


def bounded_semantics(ctx, pool):
    thorough = ctx.tier == 'thorough'
    rng = random.Random(ctx.seed)
    fs = formulas(thorough, rng)
    ctx.bounds['formulas'] = ('all single clauses of width <= 3 over 3 variables (ordered, repeated and opposite literals; with 3 and with '
                              'the minimal number of variables), all pairs of clauses of width <= 2 over 2 variables, empty formula / empty '
                              'clause with 0..3 variables, named-variable formulas, {} random 3-clause formulas over 3 variables{}; {} formulas'
                              ).format(3000 if thorough else 1000,
                                       '; all pairs of width <= 2 over 3 variables, all triples of width <= 2 over 2 variables, 4 variables' if thorough else '',
                                       len(fs))
    ctx.bounds['transformations'] = ('xor/or/maj/eq/neq/eq(invert)/one with k<={kk}; exact/atleast/atmost/anybut and LinearSubstitution < > (all six '
                                     'operators at C=1) with k<={kk}, thresholds -1..k+1; ite; lift k<=2{l3}; flip; every assignment of the result '
                                     '(<= 2^16)').format(kk=4 if thorough else 3, l3=' (3 for <= 2 variables)' if thorough else '')
    ctx.rule('C05 bounded: one case = (formula, number of variables, naming, transformation, arity, threshold/graph); all assignments of the '
             'transformed formula are compared; non-trivial iff F has a non-empty clause; distinct by that tuple')
    tasks = []
    for clauses, nvars, naming in fs:
        big = len(clauses) >= 3 and not thorough
        tasks.append((clauses, nvars, naming, (thorough, big)))
    res = pool.map_async(_work, list(_chunks(tasks, 8)))
    for clauses, nvars, naming, (th, big) in tasks:
        nt = nontrivial(clauses, None)
        fk = repr((clauses, nvars, naming))
        for spec in transformation_specs(nvars, th, big):
            ctx.case(fk + spec_key(spec), nontrivial=nt)
    for r in res.get():
        _report(ctx, r)
    ctx.sample({'F': [[1, -2], [3]], 'nvars': 3, 'transformation': 'atleast', 'k': 3, 'threshold': 2, 'assignments': 512})
    ctx.sample({'F': [[-1, -1, 2]], 'nvars': 3, 'transformation': 'lift', 'k': 2, 'assignments': 4096})
    ctx.sample({'F': [[]], 'nvars': 2, 'transformation': 'flip', 'expected variables': 2})


def bounded_compression(ctx, pool):
    thorough = ctx.tier == 'thorough'
    rng = random.Random(ctx.seed + 1)
    cases = compression_cases(thorough, rng)
    ctx.bounds['compression'] = ('xor and maj compression: all bipartite graphs Lx R with L<=3, R<=3 x single '
                                 'clauses / clause pairs over L variables; random graphs up to 4x6 given as cnfgen or networkx graphs; {} cases'
                                 ).format(len(cases))
    tasks = [(c, n, nm, [sp]) for c, n, nm, sp in cases]
    res = pool.map_async(_work, list(_chunks(tasks, 400)))
    for c, n, nm, sp in cases:
        ctx.case(repr((c, n, nm)) + spec_key(sp), nontrivial=nontrivial(c, sp) and len(sp['edges']) > 0)
    for r in res.get():
        _report(ctx, r)
    ctx.sample({'F': [[1, -3]], 'transformation': 'majcomp', 'graph': {'L': 3, 'R': 2, 'edges': [[1, 1], [1, 2], [3, 2]]}})


# ------------------------------------------------------------------ the '-T' spelling on the command line
CLI = [('xor 2', {'t': 'xor', 'k': 2}), ('or 3', {'t': 'or', 'k': 3}), ('maj 2', {'t': 'maj', 'k': 2}),
       ('maj 3', {'t': 'maj', 'k': 3}), ('eq 3', {'t': 'eq', 'k': 3}), ('neq 3', {'t': 'neq', 'k': 3}),
       ('one 3', {'t': 'one', 'k': 3}), ('exact 3 2', {'t': 'exact', 'k': 3, 'c': 2}),
       ('atleast 3 2', {'t': 'atleast', 'k': 3, 'c': 2}), ('atmost 3 1', {'t': 'atmost', 'k': 3, 'c': 1}),
       ('anybut 3 1', {'t': 'anybut', 'k': 3, 'c': 1}), ('ite', {'t': 'ite'}), ('lift 2', {'t': 'lift', 'k': 2}),
       ('flip', {'t': 'flip'}), ('lift 1', {'t': 'lift', 'k': 1}), ('exact 2 3', {'t': 'exact', 'k': 2, 'c': 3})]


def eval_cli(clauses, nvars, words, spec):
    core.import_repo()
    from cnfgen.clitools import cnfgen as cnfgen_cli
    with tempfile.TemporaryDirectory() as d:
        path = os.path.join(d, 'in.cnf')
        with open(path, 'w') as f:
            f.write(xt.to_dimacs_text(nvars, clauses))
        try:
            text = cnfgen_cli(['cnfgen', '-q', 'dimacs', path, '-T'] + words.split(), mode='string')
        except BaseException as e:
            if isinstance(e, KeyboardInterrupt):
                raise
            return [('raised', 'raised {}: {}'.format(type(e).__name__, e))]
    n, m, tcl, _ = xt.parse_dimacs(text)
    bad = []
    if m != len(tcl):
        bad.append(('semantics', 'problem line announces {} clauses, {} present'.format(m, len(tcl))))

    class NoLabels:
        def all_variable_labels(self):
            return []
    return bad + _judge(clauses, nvars, spec, NoLabels(), n, tcl)


def replay_cli(clauses, nvars, words, spec):
    return not eval_cli(clauses, nvars, words, spec)


def bounded_cli(ctx):
    fs = [([[1, -2], [2, 3], [-1]], 3), ([[1, 1, -2], []], 3), ([[-1]], 2), ([], 2), ([[2, -2], [1, 2]], 2)]
    ctx.bounds['cli'] = "cnfgen -q dimacs FILE -T <name> <args> for {} spellings x {} formulas, output parsed by an own DIMACS reader".format(len(CLI), len(fs))
    for words, spec in CLI:
        for clauses, nvars in fs:
            ctx.case(('cli', words, repr(clauses), nvars), nontrivial=bool(clauses))
            for kind, what in eval_cli(clauses, nvars, words, spec):
                ctx.violation('cli:' + vkey(spec, kind), "-T {} on {} ({} variables): {}".format(words, clauses, nvars, what),
                              {'fn': 'checks.C05:replay_cli', 'args': dict(clauses=clauses, nvars=nvars, words=words, spec=spec)})


def run(ctx):
    from checks import proofs
    proofs.run_group(ctx, 'C05')
    only = getattr(ctx, 'only', None)
    with multiprocessing.get_context('fork').Pool(min(16, os.cpu_count() or 1)) as pool:
        if not only or 'sem' in only:
            bounded_semantics(ctx, pool)
        if not only or 'comp' in only:
            bounded_compression(ctx, pool)
    if not only or 'cli' in only:
        bounded_cli(ctx)
    ctx.assume('bounded tier oracle: numpy truth tables (vlib/sat.py, vlib/x_transform.py), independent of cnfgen')
    ctx.assume('block layout of the k-ary substitutions: original variable v owns new variables (v-1)k+1..vk (docs/transform.rst example); '
               'if-then-else and lifting roles are read from the variable labels of the result (^i/^t/^e, X_/Y_), positional layout as fallback')
    ctx.assume('majority = loose majority (at least half), as documented for maj in docs/transform.rst and the -T maj help text')


def replay(ctx, data):
    return generic_replay(data)
