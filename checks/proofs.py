"""proof-tier driver shared by the checks (filled in by pyvc)"""


def run_group(ctx, group):
    pass
