"""Proof tier shared by the checks: run pyvc on the functions under contract for a property,
discharge the obligations, re-check the Lean lemma layer, and turn failures into verdicts.

Verdict rules (DESIGN 2.6)
* decisive obligation (post / pre / hazard / raises-* / yield / post-exc) not proved:
    - the function's native hook (contract['native']) searches a concrete failing input on the REAL code
      -> VIOLATION with that input as replay
    - none found -> VIOLATION ... no-failing-input-found (replay file names the obligation, carries solver output)
* only auxiliary obligations (inv-init / inv-pres / decreases) fail, or the function left the supported
  subset (UNSUPPORTED): PROOF-DEGRADED, no alarm from the proof tier; the bounded tier of the property decides.
* zero obligations generated for a registered function, or fewer obligations than the committed minimum: checker error.
"""
import importlib
import json
import os
import subprocess
import time

from vlib import core

CONTRACT_MODULES = ['contracts.graphs_dag', 'contracts.formula_cnf']
DECISIVE = {'post', 'pre', 'hazard', 'raises-iff', 'raises-only', 'yield', 'post-exc'}
BASELINE = os.path.join(core.VERIF, 'baseline_obligations.json')


def _all_contract_modules():
    mods = []
    d = os.path.join(core.VERIF, 'contracts')
    for f in sorted(os.listdir(d)):
        if f.endswith('.py') and f != '__init__.py':
            mods.append('contracts.' + f[:-3])
    return mods


def clause_props(contract, kind, name):
    """which properties an obligation belongs to: per-clause tags, else the contract's property list"""
    tags = contract.get('tags', {})
    for pat, props in tags.items():
        if pat in name:
            return props
    props = contract.get('property', [])
    if kind in ('post', 'post-exc', 'yield'):
        return props
    return props[:1] if props else []


_KNOWN = {}


def _known_decisive(prop, fname):
    if not _KNOWN and os.path.exists(BASELINE_DECISIVE):
        _KNOWN.update(json.load(open(BASELINE_DECISIVE)))
    if prop not in _KNOWN or fname not in _KNOWN[prop]:
        return None               # no baseline for this function (e.g. a contract added after the last baseline run): rule not applied
    return set(_KNOWN[prop][fname])


def run_group(ctx, prop, lean=True, other_tiers=True):
    from pyvc import engine, solve, run as pyrun
    mods = _all_contract_modules()
    contracts, models = pyrun.load_contracts(mods)
    repo = engine.Repo(core.REPO)
    baseline = json.load(open(BASELINE)) if os.path.exists(BASELINE) else {}
    todo = [(k, c) for k, c in contracts.items()
            if prop in c.get('property', []) and not (c.get('inline_always') or c.get('assumed') or c.get('trusted'))]
    p = ctx.proof
    all_obs = []
    per_func = {}
    used_assumed = set()
    t0 = time.time()
    for (rel, qual), c in todo:
        eng = engine.Engine(repo, contracts, models)
        fname = '{}:{}'.format(rel, qual)
        try:
            obs = []
            no_exit = []
            for label, cv in pyrun.variants_of(c):
                obs += eng.verify(rel, qual, contract=cv, label=label)
                if eng.exits['normal'] == 0 and not cv.get('never_returns'):
                    no_exit.append(label)
        except engine.VacuousContract as e:
            raise RuntimeError('contract inconsistency while verifying {}: {}'.format(fname, e))
        except engine.Unsupported as e:
            p['unsupported'].append({'function': fname, 'reason': str(e)})
            print('PROOF-DEGRADED {}: function left the supported subset ({}); decided by the bounded tier only'.format(fname, e))
            continue
        except (KeyError, FileNotFoundError) as e:
            p['unsupported'].append({'function': fname, 'reason': 'not found: {}'.format(e)})
            print('PROOF-DEGRADED {}: function not found in the tree ({})'.format(fname, e))
            continue
        used_assumed |= eng.used_assumed
        for u in sorted(getattr(eng, 'uninterpreted_loops', ())):
            ctx.assume('NOT INTERPRETED (declared out of scope by the contract, assumed to end normally and to assign only the declared locals): ' + u)
        mine = [ob for ob in obs if prop in clause_props(c, ob.kind, ob.name)
                or ob.kind in ('inv-init', 'inv-pres', 'decreases')]
        if not obs:
            raise RuntimeError('vacuity guard: zero obligations generated for ' + fname)
        if no_exit:
            raise RuntimeError('vacuity guard: no feasible normal exit of {} (variant {}) under its precondition'.format(fname, no_exit))
        p['vacuity_guards'] += 1
        per_func[fname] = (c, mine, eng.exits)
        all_obs.extend(mine)
        p['functions'].append(fname)
    p['solver_s'] += solve.discharge(all_obs)
    if ctx.tier == 'thorough' and all_obs:
        cc = solve.cross_check(all_obs)
        ctx.section('cvc5_cross_check', **cc)
        if cc['disagree']:
            raise RuntimeError('z3 and cvc5 disagree on obligations: {}'.format(cc['disagree'][:5]))
    for fname, (c, obs, exits) in per_func.items():
        failed_dec, failed_aux = [], []
        for ob in obs:
            p['obligations'] += 1
            if ob.verdict == 'proved':
                p['discharged'] += 1
                p['by_backend'][ob.backend] = p['by_backend'].get(ob.backend, 0) + 1
            elif ob.kind in DECISIVE:
                failed_dec.append(ob)
            else:
                failed_aux.append(ob)
        minimum = baseline.get(prop, {}).get(fname)
        if minimum is not None and len(obs) < minimum * 0.5 and not failed_dec:
            p['undecided'].append({'function': fname, 'note': 'obligation count dropped from {} to {}'.format(minimum, len(obs))})
        # A decisive obligation that fails is a VIOLATION only when the proof scaffolding it rests on is intact:
        #  * a clause that can no longer be EXPRESSED (it names a local that does not exist any more) is a stale contract, not a
        #    statement about the code;
        #  * when an auxiliary obligation of the same function fails too (a loop invariant that no longer holds or can no longer be
        #    stated - e.g. after a harmless renaming of a local or a restructured loop) every fact the decisive clauses get from that
        #    invariant is gone, so their failure says nothing about the property.
        # In both cases the function is PROOF-DEGRADED and the bounded tier decides (never an alarm on code where the property holds).
        if c.get('trace'):
            # contracts under the EVENT abstraction of the writers identify a piece of text by how it is written (one event per
            # write() call, its template and arguments), which is finer than the property (the text itself): writing the same text in
            # different pieces refutes the trace equation although nothing a reader sees changed.  Such a postcondition failure is
            # therefore never an alarm by itself - the bounded tier reads the text back; hazards / exceptions stay decisive.
            tr = [ob for ob in failed_dec if ob.kind == 'post']
            if tr:
                for ob in tr:
                    p['undecided'].append({'function': fname, 'obligation': ob.ident, 'verdict': ob.verdict})
                print('PROOF-DEGRADED {}: {} trace postcondition(s) of the event abstraction no longer discharge (the pieces the text is '
                      'written in changed); the bounded tier decides on the text itself'.format(fname, len(tr)))
                failed_dec = [ob for ob in failed_dec if ob.kind != 'post']
        stale = [ob for ob in failed_dec if 'not expressible' in ob.name]
        # an obligation no solver could decide within its budget is UNDECIDED, never a violation
        unknown = [ob for ob in failed_dec if ob.verdict != 'refuted']
        if unknown and not (failed_aux or stale):
            for ob in unknown:
                p['undecided'].append({'function': fname, 'obligation': ob.ident, 'verdict': ob.verdict})
            print('PROOF-DEGRADED {}: {} decisive obligation(s) undecided by every solver within the budget; the bounded tier decides'.format(fname, len(unknown)))
            failed_dec = [ob for ob in failed_dec if ob.verdict == 'refuted']
        if failed_dec and (failed_aux or stale):
            for ob in failed_dec + failed_aux:
                p['undecided'].append({'function': fname, 'obligation': ob.ident, 'verdict': ob.verdict})
            print('PROOF-DEGRADED {}: {} decisive obligation(s) fail together with {} auxiliary one(s) / {} clause(s) that can no longer be '
                  'expressed: the proof scaffolding is not intact, the bounded tier decides'.format(fname, len(failed_dec), len(failed_aux), len(stale)))
            hook = c.get('native')
            if hook:
                _native(ctx, prop, fname, hook, failed_dec[0], aux=True)
            continue
        known = _known_decisive(prop, fname)
        if known is not None:
            # only an obligation that EXISTED AND DISCHARGED on the unchanged tree can be reported when it fails; a decisive obligation
            # that is new (an assert somebody added, a hazard of a rewritten expression) never passed before: the function degrades
            fresh = [ob for ob in failed_dec if ob_key(ob) not in known]
            if fresh:
                for ob in fresh:
                    p['undecided'].append({'function': fname, 'obligation': ob.ident, 'verdict': ob.verdict, 'note': 'not in the baseline'})
                print('PROOF-DEGRADED {}: {} decisive obligation(s) fail that did not exist on the unchanged tree (new or reworded code); '
                      'the bounded tier decides'.format(fname, len(fresh)))
                failed_dec = [ob for ob in failed_dec if ob_key(ob) in known]
        for ob in failed_dec:
            _report(ctx, prop, fname, c, ob)
        if failed_aux and not failed_dec:
            for ob in failed_aux:
                p['undecided'].append({'function': fname, 'obligation': ob.ident, 'verdict': ob.verdict})
            print('PROOF-DEGRADED {}: {} auxiliary obligation(s) (loop invariants) no longer discharge; '
                  'the decisive contract is decided by the bounded tier'.format(fname, len(failed_aux)))
            hook = c.get('native')
            if hook:
                _native(ctx, prop, fname, hook, failed_aux[0], aux=True)
    if lean and todo:
        run_lean(ctx)
        run_conformance(ctx)
    # the other deductive tiers: effect contracts (frames / RNG typestate / exception escape) and UF-mode helper terms
    if not other_tiers:
        return per_func
    if prop in ('C07', 'C18', 'C19', 'C20'):
        from checks import proofs_effects
        proofs_effects.run_effects(ctx, prop)
    if prop == 'C17':
        from checks import proofs_uf
        proofs_uf.run_uf(ctx, prop)
    # exception-escape contracts of the readers are C18 obligations that also carry C06 / C14 clauses
    # ("raises ValueError - it never fails in another way")
    sub = {'C06': ('raises.dimacs', 'raises.dimacs.file'), 'C14': ('raises.graph_readers',)}.get(prop)
    if sub:
        run_effects_subset(ctx, 'C18', sub)
    ctx.assume('pyvc: home-made symbolic executor over the real AST (DESIGN 2.1); python ints = mathematical ints (exact); '
               'declared parameter types; lemma schemas of pyvc/specs.py as proved in lemmas/*.lean (correspondence by name, lemmas/manifest.json)')
    ctx.assume('z3 5.1 (python API), /usr/bin/cvc5 and /usr/bin/z3 4.8 for z3 unknowns')
    from pyvc import specs as _specs
    if todo and _specs.ASSUMED_SCHEMAS:
        ctx.assume('ASSUMED LEMMAS (schemas instantiated in VCs without a Lean proof yet; validated by reading only): ' + ', '.join(_specs.ASSUMED_SCHEMAS))
    for (rel, qual) in sorted(used_assumed):
        c = contracts[(rel, qual)]
        ctx.assume('assumed contract {}:{} - {}'.format(rel, qual, c.get('assumed') or c.get('trusted') or c.get('value_form')))
    for (rel, qual), c in todo:
        if c.get('note'):
            ctx.assume('{}:{} - {}'.format(rel, qual, c['note']))
    return per_func


def ob_key(ob):
    """identity of an obligation across runs: kind + its text (contract clause / hazard description), without line numbers"""
    import hashlib
    import re
    text = re.sub(r'\(line \d+\)', '(line)', ob.name)          # line numbers move with every edit above the statement
    return hashlib.sha1('{}|{}'.format(ob.kind, text).encode()).hexdigest()[:16]


BASELINE_DECISIVE = os.path.join(core.VERIF, 'baseline_decisive.json')


def _native(ctx, prop, fname, hook, ob, aux=False):
    mod, fn = hook.split(':')
    f = getattr(importlib.import_module(mod), fn)
    hit = f(ob.model or {})
    if hit:
        key, what, replay = hit
        ctx.violation(key, 'obligation [{}] of {} failed ({}); concrete failing input on the real code: {}'.format(
            ob.name, fname, ob.verdict, what), replay, kind='obligation-replayed')
        return True
    return False


def _report(ctx, prop, fname, c, ob):
    hook = c.get('native')
    if hook and _native(ctx, prop, fname, hook, ob):
        return
    short = fname.split(':')[1]
    key = 'obligation:{}:{}:{}'.format(short, ob.kind, ''.join(ch if ch.isalnum() else '_' for ch in ob.name)[:60])
    what = 'obligation failed: {} [{}] at line {} -> {} by {}; solver model (scalars): {}'.format(
        fname, ob.name, ob.line, ob.verdict, ob.backend,
        {k: v for k, v in (ob.model or {}).items() if 'val!' not in v})
    ctx.violation(key, what, {'obligation': ob.ident, 'verdict': ob.verdict, 'line': ob.line,
                              'model': ob.model, 'hyps': [str(h)[:300] for h in ob.hyps[-12:]], 'goal': str(ob.goal)[:600]},
                  kind='obligation-no-input')


def run_effects_subset(ctx, owner, contract_ids):
    """the obligations of the named effect contracts (registered under property `owner`) counted for this property"""
    import warnings
    from pyvc import effects
    with warnings.catch_warnings():
        warnings.simplefilter('ignore')
        A, obs = effects.run_property(core.REPO, owner)
    p = ctx.proof
    mine = [o for o in obs if o.contract['id'] in contract_ids]
    if not mine:
        raise RuntimeError('vacuity guard: no effect obligation for contracts {}'.format(contract_ids))
    nd = 0
    for o in mine:
        p['obligations'] += 1
        if o.function not in p['functions']:
            p['functions'].append(o.function)
        if o.verdict == 'discharged':
            p['discharged'] += 1
            nd += 1
        for (key, what, wit) in o.failures:
            ctx.violation(key, '{} :: contract [{}] {} :: witness: {}'.format(what, o.contract['id'], o.clause, ' -> '.join(wit)),
                          {'fn': 'checks.proofs_effects:replay_effect', 'args': {'key': key, 'function': o.function, 'contract': o.contract['id']},
                           'clause': o.clause, 'witness_chain': list(wit)}, kind='obligation-no-input')
    p['by_backend']['effects-analysis'] = p['by_backend'].get('effects-analysis', 0) + nd
    ctx.assume('effect contracts {} (exception escape of the readers; explicit raise analysis + library table, see contracts/effects_contracts.py)'.format(', '.join(contract_ids)))


def run_conformance(ctx):
    """guard on pyvc's encoding of Python (conformance/cases.py): every micro-program's contract must be proved by pyvc
    AND hold in CPython on random inputs; a failure is a checker error, never a verdict about cnfgen"""
    t0 = time.time()
    r = subprocess.run([os.path.join(core.VERIF, '.venv312', 'bin', 'python'), '-B', os.path.join(core.VERIF, 'tools', 'conformance.py')],
                       capture_output=True, text=True, timeout=900, cwd=core.VERIF,
                       env=dict(os.environ, PYTHONPATH=core.VERIF, PYTHONWARNINGS='ignore'))
    last = (r.stdout.strip().splitlines() or ['?'])[-1]
    ctx.section('engine_conformance', result=last, seconds=round(time.time() - t0, 1))
    if r.returncode != 0:
        raise RuntimeError('pyvc conformance suite failed (encoding of Python semantics):\n' + r.stdout[-1500:] + r.stderr[-500:])
    import re as _re
    m = _re.search(r'(\d+) cases', last)
    ctx.proof['conformance_runs'] = int(m.group(1)) if m else 0
    ctx.assume('pyvc encoding of Python checked by the conformance suite ({}): each micro-program proved by pyvc and run in CPython'.format(last))


def run_lean(ctx):
    """re-check the Lean lemma layer (all files, in parallel)"""
    sh = os.path.join(core.VERIF, 'lemmas', 'check.sh')
    if not os.path.exists(sh):
        ctx.assume('Lean lemma layer not present in this run: lemma schemas are ASSUMED')
        return
    t0 = time.time()
    r = subprocess.run(['bash', sh], capture_output=True, text=True, timeout=3600)
    dt = time.time() - t0
    ctx.proof['lean_s'] += dt
    files = [l.split()[1] for l in r.stdout.splitlines() if l.startswith('OK') and len(l.split()) >= 2]
    ctx.proof['lean_files'] = sorted(set(ctx.proof['lean_files'] + files))
    if r.returncode != 0:
        raise RuntimeError('Lean lemma layer does not compile:\n' + r.stdout[-2000:] + r.stderr[-2000:])
    if not files:
        raise RuntimeError('Lean lemma layer: no file was checked')
    ctx.proof['by_backend']['lean-files'] = len(files)
