"""C01 - pigeonhole, matching and counting families encode exactly their principle.

bounded part (this file).  For every family instance inside the bounds, both formula classes:

  1. the documented variables are present exactly once (decoded through the public variable
     labels of the formula: ``all_variable_labels``), nothing else except documented auxiliaries;
  2. the set of satisfying assignments (independent numpy truth table of the clause /
     constraint list) equals the set of assignments that describe an object of the documented
     kind.  The documented predicate is written twice, independently of cnfgen and of each other:
       (a) as a predicate over assignments (``spec_*``; evaluated by numpy or, above the truth
           table limit, by z3 as an equivalence query),
       (b) as an itertools enumeration of the combinatorial objects themselves (``obj_*``:
           placements seen from the holes, partitions built block by block, matchings built
           vertex by vertex, ...), each object mapped to the assignment that describes it;
     every enumerated object must be a model and #models == #objects (so the two sets are equal);
     with auxiliary variables (rphp: r_v) the same on the projection onto the documented ones;
  3. closed forms / documented corollaries where there is one (n!/(n-m)! placements, M!/(p!^b b!)
     partitions, "unsat iff more pigeons than holes", "sat iff matching of size |L|",
     "sat iff p divides M", "k = c+1 is unsat").

A cnfgen exception on a documented-legal input is a violation (README rule).
"""
import itertools
import math
import multiprocessing
import random
import re

import numpy as np

from vlib import core, sat
from vlib.replay import generic_replay

LEVEL = 'exploration'

TABLE_LIMIT = {'quick': 22, 'thorough': 24}
OBJECT_CAP = 200000          # objects evaluated against the formula above the table limit


# =====================================================================================
# building the formulas (the only place that touches cnfgen)
# =====================================================================================
def _classes():
    core.import_repo()
    from cnfgen.formula.cnf import CNF
    from cnfgen.formula.opb import OPB
    return {'cnf': CNF, 'opb': OPB}


def _edges(P):
    e = [tuple(x) for x in P['edges']]
    return list(reversed(e)) if P.get('rev') else e


def _bipartite(P):
    if P.get('form') == 'nx':
        import networkx
        G = networkx.Graph()
        for u in range(1, P['L'] + 1):
            G.add_node(u, bipartite=0)
        for v in range(1, P['R'] + 1):
            G.add_node(P['L'] + v, bipartite=1)
        for u, v in _edges(P):
            G.add_edge(u, P['L'] + v)
        return G
    from cnfgen.graphs import BipartiteGraph
    B = BipartiteGraph(P['L'], P['R'])
    for u, v in _edges(P):
        B.add_edge(u, v)
    return B


def _simple(P):
    if P.get('form') == 'nx':
        import networkx
        G = networkx.Graph()
        G.add_nodes_from(range(1, P['n'] + 1))
        G.add_edges_from(_edges(P))
        return G
    from cnfgen.graphs import Graph
    G = Graph(P['n'])
    for u, v in _edges(P):
        G.add_edge(u, v)
    return G


def build(fam, P, C):
    core.import_repo()
    import cnfgen
    if fam == 'php':
        return cnfgen.PigeonholePrinciple(P['m'], P['n'], functional=P['functional'], onto=P['onto'],
                                          formula_class=C)
    if fam == 'gphp':
        return cnfgen.GraphPigeonholePrinciple(_bipartite(P), functional=P['functional'], onto=P['onto'],
                                               formula_class=C)
    if fam == 'bphp':
        return cnfgen.BinaryPigeonholePrinciple(P['m'], P['n'], formula_class=C)
    if fam == 'rphp':
        return cnfgen.RelativizedPigeonholePrinciple(P['m'], P['r'], P['n'], formula_class=C)
    if fam == 'count':
        return cnfgen.CountingPrinciple(P['M'], P['p'], formula_class=C)
    if fam == 'matching':
        return cnfgen.PerfectMatchingPrinciple(_simple(P), formula_class=C)
    if fam == 'subsetcard':
        return cnfgen.SubsetCardinalityFormula(_bipartite(P), equalities=P['equalities'], formula_class=C)
    if fam == 'cliquecoloring':
        return cnfgen.CliqueColoring(P['n'], P['k'], P['c'], formula_class=C)
    raise ValueError(fam)


def variant(fam, P):
    if fam in ('php', 'gphp'):
        return {(False, False): 'plain', (True, False): 'functional', (False, True): 'onto',
                (True, True): 'matching'}[(bool(P['functional']), bool(P['onto']))]
    if fam == 'subsetcard':
        return 'eq' if P['equalities'] else 'ineq'
    return '-'


def has_zero(fam, P):
    """some size parameter is 0 / the graph has an empty side (boundary shapes)"""
    return any(P.get(k) == 0 for k in ('m', 'n', 'r', 'M', 'k', 'c', 'L', 'R'))


# =====================================================================================
# documented variables
# =====================================================================================
LABEL = re.compile(r'^([A-Za-z]+)(?:_\{([0-9,]*)\}|\(([0-9,]*)\))$')
ANY_NAME = ('bphp', 'count', 'matching')   # the docstring does not name the variables: any one name
AUX = {'rphp': ('r',)}                     # auxiliary (not documented as part of the object)


def bits_for(n):
    """smallest b such that 0..n-1 can all be written with b bits"""
    return (n - 1).bit_length() if n >= 1 else 0


def _graph_sides(P):
    if 'L' in P:
        return P['L'], P['R'], sorted(set(tuple(e) for e in P['edges']))
    return P['m'], P['n'], [(u, v) for u in range(1, P['m'] + 1) for v in range(1, P['n'] + 1)]


def doc_vars(fam, P):
    if fam in ('php', 'gphp'):
        return set(('p', e) for e in _graph_sides(P)[2])
    if fam == 'bphp':
        return set(('*', (i, b)) for i in range(1, P['m'] + 1) for b in range(bits_for(P['n'])))
    if fam == 'rphp':
        return (set(('p', (u, v)) for u in range(1, P['m'] + 1) for v in range(1, P['r'] + 1)) |
                set(('q', (v, w)) for v in range(1, P['r'] + 1) for w in range(1, P['n'] + 1)))
    if fam == 'count':
        return set(('*', s) for s in itertools.combinations(range(1, P['M'] + 1), P['p']))
    if fam == 'matching':
        return set(('*', (min(e), max(e))) for e in map(tuple, P['edges']))
    if fam == 'subsetcard':
        return set(('x', tuple(e)) for e in P['edges'])
    if fam == 'cliquecoloring':
        n, k, c = P['n'], P['k'], P['c']
        return (set(('e', s) for s in itertools.combinations(range(1, n + 1), 2)) |
                set(('q', (i, v)) for i in range(1, k + 1) for v in range(1, n + 1)) |
                set(('r', (v, l)) for v in range(1, n + 1) for l in range(1, c + 1)))
    raise ValueError(fam)


def decode(fam, P, labels, N):
    """(keymap {(name, index tuple): variable id}, aux ids) or an error string"""
    if len(labels) != N:
        return '{} labels for {} variables'.format(len(labels), N)
    keymap = {}
    names = set()
    for vid, lab in enumerate(labels, 1):
        m = LABEL.match(lab)
        if not m:
            return 'variable {} has the label {!r}, not a documented indexed variable'.format(vid, lab)
        idx = tuple(int(t) for t in (m.group(2) if m.group(2) is not None else m.group(3)).split(',') if t)
        name = m.group(1)
        if fam in ANY_NAME:
            names.add(name)
            name = '*'
        if (name, idx) in keymap:
            return 'label {!r} occurs twice'.format(lab)
        keymap[(name, idx)] = vid
    if len(names) > 1:
        return 'several variable names {}'.format(sorted(names))
    doc = doc_vars(fam, P)
    missing = doc - set(keymap)
    extra = set(keymap) - doc
    bad_extra = [k for k in extra if k[0] not in AUX.get(fam, ())]
    if missing or bad_extra:
        return 'documented variables {} ({}), formula has {}: missing {}, unexpected {}'.format(
            len(doc), 'e.g. ' + str(sorted(doc)[:3]), N, sorted(missing)[:4], sorted(bad_extra)[:4])
    return keymap, sorted(keymap[k] for k in extra)


# =====================================================================================
# (a) the documented predicate over assignments, generic in the backend
# =====================================================================================
class NPBackend:
    def __init__(self, N):
        self.N = N
        self.cols = sat.columns(N)
        self.size = 1 << N

    def var(self, v):
        return self.cols[v]

    def const(self, b):
        return np.ones(self.size, dtype=bool) if b else np.zeros(self.size, dtype=bool)

    def all(self, xs):
        t = self.const(True)
        for x in xs:
            t &= x
        return t

    def any(self, xs):
        t = self.const(False)
        for x in xs:
            t |= x
        return t

    def neg(self, x):
        return ~x

    def count(self, xs, op, k):
        c = np.zeros(self.size, dtype=np.int16)
        for x in xs:
            c += x
        return {'<=': c <= k, '>=': c >= k, '==': c == k}[op]


class Z3Backend:
    def __init__(self, N):
        import z3
        self.z3 = z3
        self.xs = [None] + [z3.Bool('x%d' % i) for i in range(1, N + 1)]

    def var(self, v):
        return self.xs[v]

    def const(self, b):
        return self.z3.BoolVal(bool(b))

    def all(self, xs):
        xs = list(xs)
        return self.z3.And(xs) if xs else self.const(True)

    def any(self, xs):
        xs = list(xs)
        return self.z3.Or(xs) if xs else self.const(False)

    def neg(self, x):
        return self.z3.Not(x)

    def count(self, xs, op, k):
        xs = list(xs)
        s = self.z3.Sum([self.z3.If(x, 1, 0) for x in xs]) if xs else self.z3.IntVal(0)
        return {'<=': s <= k, '>=': s >= k, '==': s == k}[op]


def spec(fam, P, B, x):
    """B: backend, x(key) -> backend boolean of the documented variable `key`"""
    if fam in ('php', 'gphp'):
        L, R, E = _graph_sides(P)
        E = set(E)
        out = []
        for u in range(1, L + 1):
            row = [x(('p', (u, v))) for v in range(1, R + 1) if (u, v) in E]
            out.append(B.any(row))                       # every pigeon sits somewhere
            if P['functional']:
                out.append(B.count(row, '<=', 1))        # ... in at most one hole
        for v in range(1, R + 1):
            col = [x(('p', (u, v))) for u in range(1, L + 1) if (u, v) in E]
            out.append(B.count(col, '<=', 1))            # no collision in a hole
            if P['onto']:
                out.append(B.any(col))                   # every hole is used
        return B.all(out)
    if fam == 'bphp':
        m, n = P['m'], P['n']
        b = bits_for(n)

        def sits(i, h):     # the bit string of pigeon i is the binary writing of h (bit j has weight 2^j)
            return B.all([x(('*', (i, j))) if (h >> j) & 1 else B.neg(x(('*', (i, j)))) for j in range(b)])
        out = []
        for i in range(1, m + 1):
            out.append(B.any([sits(i, h) for h in range(n)]))      # the string names one of the n holes
        for h in range(n):
            for i, j in itertools.combinations(range(1, m + 1), 2):
                out.append(B.neg(B.all([sits(i, h), sits(j, h)])))
        return B.all(out)
    if fam == 'rphp':
        m, r, n = P['m'], P['r'], P['n']
        out = []
        for u in range(1, m + 1):
            out.append(B.any([x(('p', (u, v))) for v in range(1, r + 1)]))     # each pigeon rests somewhere
        occ = {}
        for v in range(1, r + 1):
            col = [x(('p', (u, v))) for u in range(1, m + 1)]
            out.append(B.count(col, '<=', 1))                                # no two pigeons rest together
            occ[v] = B.any(col)
        for v in range(1, r + 1):      # the pigeon resting at v flies to some hole
            out.append(B.any([B.neg(occ[v])] + [x(('q', (v, w))) for w in range(1, n + 1)]))
        for w in range(1, n + 1):      # pigeons from two resting places do not share a hole
            for v1, v2 in itertools.combinations(range(1, r + 1), 2):
                out.append(B.neg(B.all([occ[v1], occ[v2], x(('q', (v1, w))), x(('q', (v2, w)))])))
        return B.all(out)
    if fam == 'count':
        M, p = P['M'], P['p']
        blocks = list(itertools.combinations(range(1, M + 1), p))
        return B.all([B.count([x(('*', s)) for s in blocks if i in s], '==', 1) for i in range(1, M + 1)])
    if fam == 'matching':
        E = sorted(set((min(e), max(e)) for e in map(tuple, P['edges'])))
        return B.all([B.count([x(('*', e)) for e in E if u in e], '==', 1) for u in range(1, P['n'] + 1)])
    if fam == 'subsetcard':
        E = [tuple(e) for e in P['edges']]
        out = []
        for u in range(1, P['L'] + 1):
            inc = [x(('x', e)) for e in E if e[0] == u]
            d = len(inc)
            # sum >= d/2  (integers: sum >= ceil(d/2));  equalities: sum == ceil(d/2)
            out.append(B.count(inc, '==' if P['equalities'] else '>=', (d + 1) // 2))
        for v in range(1, P['R'] + 1):
            inc = [x(('x', e)) for e in E if e[1] == v]
            d = len(inc)
            # sum <= d/2  (integers: sum <= floor(d/2));  equalities: sum == floor(d/2)
            out.append(B.count(inc, '==' if P['equalities'] else '<=', d // 2))
        return B.all(out)
    if fam == 'cliquecoloring':
        n, k, c = P['n'], P['k'], P['c']
        V = range(1, n + 1)
        out = []
        for i in range(1, k + 1):          # q is a function [k] -> [n]
            out.append(B.count([x(('q', (i, v))) for v in V], '==', 1))
        for v in V:                        # ... that names k distinct vertices
            out.append(B.count([x(('q', (i, v))) for i in range(1, k + 1)], '<=', 1))
        for i in range(1, k + 1):          # ... pairwise adjacent
            for j in range(1, k + 1):
                if i != j:
                    for u, v in itertools.combinations(V, 2):
                        out.append(B.any([B.neg(x(('q', (i, u)))), B.neg(x(('q', (j, v)))), x(('e', (u, v)))]))
        for v in V:                        # r is a function [n] -> [c]
            out.append(B.count([x(('r', (v, l))) for l in range(1, c + 1)], '==', 1))
        for u, v in itertools.combinations(V, 2):     # ... that is a proper colouring
            for l in range(1, c + 1):
                out.append(B.neg(B.all([x(('e', (u, v))), x(('r', (u, l))), x(('r', (v, l)))])))
        return B.all(out)
    raise ValueError(fam)


# =====================================================================================
# (b) the combinatorial objects themselves; each object = set of true documented variables
# =====================================================================================
def _subsets(items):
    items = list(items)
    for mask in range(1 << len(items)):
        yield [items[i] for i in range(len(items)) if mask >> i & 1]


def obj_placements(L, R, E, functional, onto):
    """seen from the holes: every hole picks at most one of the pigeons allowed to use it"""
    E = set(E)
    choices = [[0] + [u for u in range(1, L + 1) if (u, v) in E] for v in range(1, R + 1)]
    for owner in itertools.product(*choices):
        if onto and 0 in owner:
            continue
        cnt = [0] * (L + 1)
        for u in owner:
            cnt[u] += 1
        if any(cnt[u] == 0 for u in range(1, L + 1)):
            continue
        if functional and any(cnt[u] != 1 for u in range(1, L + 1)):
            continue
        yield [('p', (owner[v - 1], v)) for v in range(1, R + 1) if owner[v - 1]]


def obj_bphp(m, n):
    b = bits_for(n)
    for f in itertools.permutations(range(n), m):
        yield [('*', (i, j)) for i in range(1, m + 1) for j in range(b) if (f[i - 1] >> j) & 1]


def obj_rphp(m, r, n):
    for owner in itertools.product(range(m + 1), repeat=r):      # pigeon resting at each place (0 = nobody)
        if set(range(1, m + 1)) - set(owner):
            continue
        p = [('p', (owner[v - 1], v)) for v in range(1, r + 1) if owner[v - 1]]
        occ = [v for v in range(1, r + 1) if owner[v - 1]]
        free = [v for v in range(1, r + 1) if not owner[v - 1]]
        for user in itertools.product([0] + occ, repeat=n):      # occupied place using each hole (0 = none)
            if set(occ) - set(user):
                continue
            q1 = [('q', (user[w - 1], w)) for w in range(1, n + 1) if user[w - 1]]
            # what the variables of an empty resting place say is not constrained
            for q2 in _subsets(('q', (v, w)) for v in free for w in range(1, n + 1)):
                yield p + q1 + q2


def obj_partitions(M, p):
    def rec(rest):
        if not rest:
            yield []
            return
        first = rest[0]
        for others in itertools.combinations(rest[1:], p - 1):
            block = (first,) + others
            left = [e for e in rest if e not in block]
            for tail in rec(left):
                yield [block] + tail
    for part in rec(list(range(1, M + 1))):
        yield [('*', blk) for blk in part]


def obj_matchings(n, edges):
    adj = {u: set() for u in range(1, n + 1)}
    for u, v in edges:
        adj[u].add(v)
        adj[v].add(u)

    def rec(rest):
        if not rest:
            yield []
            return
        u = rest[0]
        for v in rest[1:]:
            if v in adj[u]:
                for tail in rec([w for w in rest[1:] if w != v]):
                    yield [(u, v)] + tail
    for mt in rec(list(range(1, n + 1))):
        yield [('*', e) for e in mt]


def obj_subsetcard(L, R, E, equalities):
    E = [tuple(e) for e in E]
    dl = {u: sum(1 for e in E if e[0] == u) for u in range(1, L + 1)}
    dr = {v: sum(1 for e in E if e[1] == v) for v in range(1, R + 1)}
    for S in _subsets(E):
        ok = True
        for u in dl:
            s = sum(1 for e in S if e[0] == u)
            ok = ok and (s == math.ceil(dl[u] / 2) if equalities else 2 * s >= dl[u])
        for v in dr:
            s = sum(1 for e in S if e[1] == v)
            ok = ok and (s == math.floor(dr[v] / 2) if equalities else 2 * s <= dr[v])
        if ok:
            yield [('x', e) for e in S]


def obj_cliquecoloring(n, k, c):
    V = range(1, n + 1)
    pairs = list(itertools.combinations(V, 2))
    for clique in itertools.permutations(V, k):
        members = set(clique)
        q = [('q', (i + 1, v)) for i, v in enumerate(clique)]
        for col in itertools.product(range(1, c + 1), repeat=n):
            r = [('r', (v, col[v - 1])) for v in V]
            forced, free, ok = [], [], True
            for (u, v) in pairs:
                inside = u in members and v in members
                mono = col[u - 1] == col[v - 1]
                if inside and mono:
                    ok = False
                    break
                if inside:
                    forced.append(('e', (u, v)))
                elif not mono:
                    free.append(('e', (u, v)))
            if not ok:
                continue
            for S in _subsets(free):
                yield q + r + forced + S


def objects(fam, P):
    if fam in ('php', 'gphp'):
        L, R, E = _graph_sides(P)
        return obj_placements(L, R, E, P['functional'], P['onto'])
    if fam == 'bphp':
        return obj_bphp(P['m'], P['n'])
    if fam == 'rphp':
        return obj_rphp(P['m'], P['r'], P['n'])
    if fam == 'count':
        return obj_partitions(P['M'], P['p'])
    if fam == 'matching':
        return obj_matchings(P['n'], [tuple(e) for e in P['edges']])
    if fam == 'subsetcard':
        return obj_subsetcard(P['L'], P['R'], P['edges'], P['equalities'])
    if fam == 'cliquecoloring':
        return obj_cliquecoloring(P['n'], P['k'], P['c'])
    raise ValueError(fam)


# =====================================================================================
# (c) closed forms and documented corollaries
# =====================================================================================
def _has_saturating_matching(L, R, E):
    E = set(E)
    nb = [[v for v in range(1, R + 1) if (u, v) in E] for u in range(1, L + 1)]
    return any(len(set(ch)) == L for ch in itertools.product(*nb))


def expected_sat(fam, P):
    """(bool, why) from the documentation / elementary counting, or None"""
    if fam == 'php':
        m, n = P['m'], P['n']
        if not P['onto']:
            return m <= n, 'unsatisfiable iff more pigeons than holes'
        if P['functional']:
            return m == n, 'a bijection exists iff pigeons == holes'
        return (m <= n and (m >= 1 or n == 0)), 'holes can be distributed among the pigeons, each getting one'
    if fam == 'gphp' and not P['onto']:
        return _has_saturating_matching(P['L'], P['R'], P['edges']), 'satisfiable iff a matching of size |L| exists'
    if fam == 'bphp':
        return P['m'] <= P['n'], 'unsatisfiable iff more pigeons than holes'
    if fam == 'rphp':
        return P['m'] <= min(P['r'], P['n']), 'pigeons need distinct resting places and then distinct holes'
    if fam == 'count':
        return P['M'] % P['p'] == 0, 'a partition into p-blocks exists iff p divides M'
    if fam == 'cliquecoloring':
        n, k, c = P['n'], P['k'], P['c']
        return (k <= n and (n == 0 or c >= max(k, 1))), 'a k-clique needs k vertices and k colours (k = c+1 is unsat)'
    return None


def expected_count(fam, P):
    if fam == 'php' and P['functional']:
        m, n = P['m'], P['n']
        if P['onto']:
            return math.factorial(n) if m == n else 0
        return math.perm(n, m) if m <= n else 0
    if fam == 'bphp':
        return math.perm(P['n'], P['m']) if P['m'] <= P['n'] else 0
    if fam == 'count':
        M, p = P['M'], P['p']
        if M % p:
            return 0
        b = M // p
        return math.factorial(M) // (math.factorial(p) ** b * math.factorial(b))
    return None


# =====================================================================================
# evaluation of one instance
# =====================================================================================
def _project(table, N, aux):
    """exists aux: table, broadcast back to all 2^N assignments"""
    if not aux:
        return table
    arr = table.reshape((2,) * N)
    red = arr.any(axis=tuple(N - v for v in aux), keepdims=True)
    return np.broadcast_to(red, arr.shape).reshape(-1)


def _describe(a, N, keymap):
    inv = {v: k for k, v in keymap.items()}
    return 'true variables {}'.format(['{}{}'.format(inv[v][0], list(inv[v][1])) for v in range(1, N + 1) if (a >> (v - 1)) & 1])


def _objects_matrix(objs, keymap, N):
    A = np.zeros((len(objs), N + 1), dtype=bool)
    for i, o in enumerate(objs):
        for k in o:
            A[i, keymap[k]] = True
    return A


def _rows_on_matrix(rows, is_opb, A):
    ok = np.ones(A.shape[0], dtype=bool)
    for r in rows:
        if is_opb:
            s = np.zeros(A.shape[0], dtype=np.int64)
            for c, l in r[:-2]:
                s += c * (A[:, l] if l > 0 else ~A[:, -l])
            ok &= {'>=': s >= r[-1], '==': s == r[-1], '<=': s <= r[-1], '<': s < r[-1], '>': s > r[-1]}[r[-2]]
        else:
            t = np.zeros(A.shape[0], dtype=bool)
            for l in r:
                t |= (A[:, l] if l > 0 else ~A[:, -l])
            ok &= t
    return ok


def eval_case(fam, cls, P, limit=22):
    """None if the instance encodes exactly its principle, else (kind, text)"""
    C = _classes()[cls]
    try:
        F = build(fam, P, C)
        N = F.number_of_variables()
        labels = list(F.all_variable_labels())
        is_opb = hasattr(F, 'number_of_constraints')
        rows = [list(r) for r in F]
    except Exception as e:
        return ('raised:{}{}'.format(type(e).__name__, ':zero' if has_zero(fam, P) else ''),
                'raised {}: {} on a documented-legal input'.format(type(e).__name__, e))
    d = decode(fam, P, labels, N)
    if isinstance(d, str):
        return 'variables', d
    keymap, aux = d
    want_sat = expected_sat(fam, P)
    want_cnt = expected_count(fam, P)

    if N <= limit:
        got = sat.opb_table(N, rows) if is_opb else sat.cnf_table(N, rows)
        B = NPBackend(N)
        want = spec(fam, P, B, lambda k: B.var(keymap[k]))
        gotp = _project(got, N, aux)
        if not np.array_equal(gotp, want):
            bad = np.flatnonzero(gotp != want)
            a = int(bad[0])
            if gotp[a]:
                return 'semantics', 'a satisfying assignment describes no object of the documented kind: {}'.format(_describe(a, N, keymap))
            return 'semantics', 'an object of the documented kind is not described by any satisfying assignment: {}'.format(_describe(a, N, keymap))
        nmodels = int(gotp.sum()) >> len(aux)
        objs = [frozenset(o) for o in objects(fam, P)]
        assert len(set(objs)) == len(objs), 'checker: object enumeration repeats an object'
        for o in objs:
            a = 0
            for k in o:
                a |= 1 << (keymap[k] - 1)
            if not gotp[a]:
                return 'semantics', 'object {} is not described by any satisfying assignment'.format(sorted(o))
        if len(objs) != nmodels:
            return 'count', '{} objects of the documented kind but {} satisfying assignments (on the documented variables)'.format(len(objs), nmodels)
        issat = nmodels > 0
    else:
        assert not aux, 'checker: auxiliary variables only handled below the truth table limit'
        import z3
        s, xs = sat.z3_solver_for(N, constraints=rows) if is_opb else sat.z3_solver_for(N, clauses=rows)
        Fz = z3.And(list(s.assertions())) if len(s.assertions()) else z3.BoolVal(True)
        Bz = Z3Backend(N)
        Sz = spec(fam, P, Bz, lambda k: Bz.var(keymap[k]))
        for lhs, rhs, text in ((Fz, Sz, 'a satisfying assignment describes no object of the documented kind'),
                               (Sz, Fz, 'an object of the documented kind is not described by a satisfying assignment')):
            t = z3.Solver()
            t.add(lhs, z3.Not(rhs))
            res = t.check()
            assert res != z3.unknown
            if res == z3.sat:
                mdl = t.model()
                a = sum(1 << (v - 1) for v in range(1, N + 1) if z3.is_true(mdl.eval(Bz.var(v), model_completion=True)))
                return 'semantics', '{}: {}'.format(text, _describe(a, N, keymap))
        objs = [frozenset(o) for o in itertools.islice(objects(fam, P), OBJECT_CAP)]
        if objs:
            ok = _rows_on_matrix(rows, is_opb, _objects_matrix(objs, keymap, N))
            if not ok.all():
                return 'semantics', 'object {} does not satisfy the formula'.format(sorted(objs[int(np.flatnonzero(~ok)[0])]))
        r = s.check()
        assert r != z3.unknown
        issat = r == z3.sat
        if issat != bool(objs):
            return 'sat', 'formula is {} but {} objects exist'.format('sat' if issat else 'unsat', 'some' if objs else 'no')
        nmodels = len(objs) if len(objs) < OBJECT_CAP else None
    if want_sat is not None and issat != want_sat[0]:
        return 'sat', 'formula is {} but: {}'.format('satisfiable' if issat else 'unsatisfiable', want_sat[1])
    if want_cnt is not None and nmodels is not None and nmodels != want_cnt:
        return 'count', '{} satisfying assignments, closed form says {}'.format(nmodels, want_cnt)
    return None


def replay_case(fam, cls, P, limit=22):
    return eval_case(fam, cls, P, limit) is None


# =====================================================================================
# task generation
# =====================================================================================
def _bip_graphs(L, R):
    pairs = [(u, v) for u in range(1, L + 1) for v in range(1, R + 1)]
    for mask in range(1 << len(pairs)):
        yield [pairs[i] for i in range(len(pairs)) if mask >> i & 1]


def _simple_graphs(n):
    pairs = list(itertools.combinations(range(1, n + 1), 2))
    for mask in range(1 << len(pairs)):
        yield [pairs[i] for i in range(len(pairs)) if mask >> i & 1]


FLAGS = [(False, False), (True, False), (False, True), (True, True)]


def tasks(tier, seed):
    th = tier == 'thorough'
    rng = random.Random(seed)
    out = []
    bounds = {}
    # --- php
    mx = 6 if th else 4
    bounds['php'] = 'pigeons, holes in 0..{} x functional x onto'.format(mx)
    for m in range(mx + 1):
        for n in range(mx + 1):
            for f, o in FLAGS:
                out.append(('php', dict(m=m, n=n, functional=f, onto=o)))
    # --- gphp / subsetcard on all bipartite graphs
    shapes = [(L, R) for L in range(4) for R in range(4)]
    if th:
        shapes += [(4, 3), (3, 4), (4, 0), (0, 4), (4, 1), (1, 4), (2, 4), (4, 2)]
    bounds['gphp'] = 'all bipartite graphs with sides {} (edge insertion order reversed for every other graph), 4 flag combinations; networkx input for the 2x2 and 2x3 graphs'.format(
        '<= 3+3, plus 4x3, 3x4, 4x2, 2x4, 4x1, 1x4, 4x0, 0x4' if th else '<= 3+3 (incl. empty sides)')
    bounds['subsetcard'] = bounds['gphp'].replace('4 flag combinations', 'equalities on/off')
    for (L, R) in shapes:
        for i, edges in enumerate(_bip_graphs(L, R)):
            forms = ['bg'] + (['nx'] if (L, R) in ((2, 2), (2, 3)) else [])
            for form in forms:
                base = dict(L=L, R=R, edges=edges, rev=bool(i & 1), form=form)
                for f, o in FLAGS:
                    out.append(('gphp', dict(base, functional=f, onto=o)))
                for eq in (False, True):
                    out.append(('subsetcard', dict(base, equalities=eq)))
    # --- bphp
    mm, nn = (5, 9) if th else (4, 6)
    bounds['bphp'] = 'pigeons 0..{}, holes 0..{}'.format(mm, nn)
    for m in range(mm + 1):
        for n in range(nn + 1):
            if m * bits_for(n) <= (24 if th else 22):
                out.append(('bphp', dict(m=m, n=n)))
    # --- rphp
    bounds['rphp'] = 'pigeons, resting places, holes in 0..3' + (' plus every triple in 0..4 with <= 24 variables' if th else '')
    for m, r, n in itertools.product(range(5 if th else 4), repeat=3):
        if max(m, r, n) <= 3 or m * r + r * n + r <= 24:
            out.append(('rphp', dict(m=m, r=r, n=n)))
    # --- count (parity is count with p = 2)
    MM, pp = (10, 4) if th else (8, 3)
    bounds['count'] = 'M in 0..{}, p in 1..{} (p = 2 is the parity principle), formulas with <= {} variables'.format(MM, pp + 1, 130 if th else 60)
    for M in range(MM + 1):
        for p in range(1, pp + 2):
            if math.comb(M, p) <= (130 if th else 60):
                out.append(('count', dict(M=M, p=p)))
    # --- matching
    nv = 6 if th else 5
    bounds['matching'] = 'all labelled simple graphs on 0..{} vertices (isolated vertices included); networkx input for the graphs on 4 vertices'.format(nv)
    for n in range(nv + 1):
        for i, edges in enumerate(_simple_graphs(n)):
            out.append(('matching', dict(n=n, edges=edges, rev=bool(i & 1), form='bg')))
            if n == 4:
                out.append(('matching', dict(n=n, edges=edges, rev=bool(i & 1), form='nx')))
    # --- cliquecoloring
    bounds['cliquecoloring'] = 'n in 0..4, k and c in 0..3' + (' (thorough: k, c up to 4; n = 5 with k, c <= 2)' if th else '')
    kc = 4 if th else 3
    for n in range(5):
        for k in range(kc + 1):
            for c in range(kc + 1):
                if math.comb(n, 2) + k * n + n * c <= 34:
                    out.append(('cliquecoloring', dict(n=n, k=k, c=c)))
    if th:
        for k in range(3):
            for c in range(3):
                out.append(('cliquecoloring', dict(n=5, k=k, c=c)))
    full = [(fam, cls, P) for (fam, P) in out for cls in ('cnf', 'opb')]
    rng.shuffle(full)          # balance the pool chunks; results do not depend on the order
    full.sort(key=lambda t: -len(doc_vars(t[0], t[2])))      # big instances first (stable sort)
    return full, bounds


def _work(args):
    fam, cls, P, limit = args
    bad = eval_case(fam, cls, P, limit)
    nvars = len(doc_vars(fam, P))
    return fam, cls, P, bad, nvars


# =====================================================================================
# command line output (DIMACS): parity exists only there
# =====================================================================================
def _parse_dimacs(text):
    n = None
    clauses = []
    cur = []
    for line in text.splitlines():
        line = line.strip()
        if not line or line[0] == 'c':
            continue
        if line[0] == 'p':
            parts = line.split()
            assert parts[1] == 'cnf', line
            n, m = int(parts[2]), int(parts[3])
            continue
        for tok in line.split():
            v = int(tok)
            if v == 0:
                clauses.append(cur)
                cur = []
            else:
                cur.append(v)
    assert n is not None and not cur
    assert len(clauses) == m
    return n, clauses


def _count_models(n, clauses, limit):
    if n <= limit:
        return int(sat.cnf_table(n, clauses).sum())
    return sat.z3_count_models(n, clauses, limit=20000)


def eval_cli(argv, fam, P, limit=22):
    core.import_repo()
    from cnfgen.clitools.cnfgen import cli
    try:
        text = cli(['cnfgen', '-q'] + list(argv), mode='string')
    except BaseException as e:      # SystemExit included: the command is documented-legal
        if isinstance(e, KeyboardInterrupt):
            raise
        return 'raised:' + type(e).__name__, 'cnfgen {} raised {}: {}'.format(' '.join(argv), type(e).__name__, e)
    n, clauses = _parse_dimacs(text)
    nobj = sum(1 for _ in objects(fam, P))
    if fam in AUX:
        issat = sat.z3_is_sat(n, clauses)
        if issat != (nobj > 0):
            return 'sat', 'cnfgen {} is {} but {} objects exist'.format(' '.join(argv), 'sat' if issat else 'unsat', nobj)
        return None
    if n != len(doc_vars(fam, P)):
        return 'variables', 'cnfgen {} has {} variables, documented {}'.format(' '.join(argv), n, len(doc_vars(fam, P)))
    got = _count_models(n, clauses, limit)
    if got != nobj:
        return 'count', 'cnfgen {} has {} satisfying assignments, there are {} objects'.format(' '.join(argv), got, nobj)
    return None


def replay_cli(argv, fam, P, limit=22):
    return eval_cli(argv, fam, P, limit) is None


def cli_cases(tier):
    th = tier == 'thorough'
    out = []
    for N in range(0, 9 if th else 8):
        out.append((['parity', str(N)], 'count', dict(M=N, p=2)))
    for M, p in [(0, 1), (3, 1), (4, 2), (6, 3), (5, 2), (2, 3)]:
        out.append((['count', str(M), str(p)], 'count', dict(M=M, p=p)))
    for m, n in [(0, 0), (3, 2), (2, 3), (3, 3), (0, 2), (2, 0)]:
        for f, o in FLAGS:
            out.append((['php', str(m), str(n)] + (['--functional'] if f else []) + (['--onto'] if o else []),
                        'php', dict(m=m, n=n, functional=f, onto=o)))
    out.append((['php', '3'], 'php', dict(m=4, n=3, functional=False, onto=False)))      # N -> N+1 pigeons, N holes
    for m, n in [(1, 1), (2, 1), (3, 4), (3, 5), (4, 3), (2, 8)]:
        out.append((['bphp', str(m), str(n)], 'bphp', dict(m=m, n=n)))
    for m, r, n in [(2, 3, 2), (3, 2, 3), (2, 2, 1), (0, 2, 0), (1, 2, 1)]:
        out.append((['rphp', str(m), str(r), str(n)], 'rphp', dict(m=m, r=r, n=n)))
    # the command line declares n >= 0, k >= 1, c >= 1 (bphp: M, N >= 1)
    for n, k, c in [(3, 2, 2), (4, 2, 1), (3, 3, 3), (4, 3, 2), (0, 1, 1), (3, 1, 1)]:
        out.append((['cliquecoloring', str(n), str(k), str(c)], 'cliquecoloring', dict(n=n, k=k, c=c)))
    for n in (2, 3, 4):
        out.append((['matching', 'complete', str(n)], 'matching',
                    dict(n=n, edges=list(itertools.combinations(range(1, n + 1), 2)))))
    return out


# =====================================================================================
def bounded_families(ctx):
    limit = TABLE_LIMIT[ctx.tier]
    full, bounds = tasks(ctx.tier, ctx.seed)
    for k, v in bounds.items():
        ctx.bounds[k] = v
    ctx.bounds['assignments'] = ('all 2^N assignments by truth table for N <= {}; above: z3 equivalence with the documented '
                                 'predicate + the first {} enumerated objects evaluated on the formula').format(limit, OBJECT_CAP)
    ctx.rule('C01 bounded: one case = (family, flags, parameters or graph, formula class); non-trivial iff the instance '
             'has at least one documented variable; distinct by that tuple')
    jobs = [(fam, cls, P, limit) for fam, cls, P in full]
    with multiprocessing.Pool(min(16, multiprocessing.cpu_count())) as pool:
        results = list(pool.imap_unordered(_work, jobs, chunksize=8))
    results.sort(key=lambda r: (r[0], r[1], r[4], repr(sorted(r[2].items()))))      # smallest instance reported first
    per = {}
    for fam, cls, P, bad, nvars in results:
        ctx.case((fam, cls, sorted(P.items())), nontrivial=nvars > 0)
        per[fam] = per.get(fam, 0) + 1
        if bad:
            kind, text = bad
            ctx.violation('{}:{}:{}:{}'.format(fam, variant(fam, P), cls, kind),
                          '{} {} formula_class={} : {}'.format(fam, P, cls.upper(), text),
                          {'fn': 'checks.C01:replay_case', 'args': dict(fam=fam, cls=cls, P=P, limit=limit)})
    ctx.section('families', cases_per_family=per)
    ctx.sample({'family': 'gphp', 'L': 3, 'R': 3, 'edges': [[1, 1], [1, 3], [2, 2], [3, 2], [3, 3]], 'functional': True, 'onto': False, 'class': 'opb'})
    ctx.sample({'family': 'rphp', 'm': 2, 'r': 3, 'n': 2, 'class': 'cnf'})
    ctx.sample({'family': 'count', 'M': 6, 'p': 3, 'class': 'opb'})
    ctx.sample({'family': 'matching', 'n': 5, 'edges': [[1, 2], [2, 3], [3, 4], [4, 5], [1, 5]], 'class': 'cnf'})
    ctx.sample({'family': 'cliquecoloring', 'n': 4, 'k': 3, 'c': 2, 'class': 'cnf'})
    ctx.sample({'family': 'bphp', 'm': 0, 'n': 3, 'class': 'cnf'})


def bounded_cli(ctx):
    limit = TABLE_LIMIT[ctx.tier]
    cases = cli_cases(ctx.tier)
    ctx.bounds['cli'] = '{} cnfgen command lines (parity N for N <= {}, count, php with flags, bphp, rphp, cliquecoloring, matching complete n): DIMACS output parsed independently, #models == #objects (rphp: sat iff an object exists)'.format(
        len(cases), 8 if ctx.tier == 'thorough' else 7)
    for argv, fam, P in cases:
        ctx.case(('cli', tuple(argv)), nontrivial=len(doc_vars(fam, P)) > 0)
        bad = eval_cli(argv, fam, P, limit)
        if bad:
            ctx.violation('cli:{}:{}'.format(argv[0], bad[0]), bad[1],
                          {'fn': 'checks.C01:replay_cli', 'args': dict(argv=argv, fam=fam, P=P, limit=limit)})
    ctx.sample({'cli': 'cnfgen -q parity 6', 'expected models': 15})


def run(ctx):
    from checks import proofs
    proofs.run_group(ctx, 'C01')
    only = getattr(ctx, 'only', None)
    if not only or 'fam' in only:
        bounded_families(ctx)
    if not only or 'cli' in only:
        bounded_cli(ctx)
    ctx.assume('bounded tier oracles: numpy truth tables / z3 (vlib/sat.py), itertools enumeration of the objects; independent of cnfgen')
    ctx.assume('variables are decoded through the public labels of the formula (all_variable_labels); C11 covers the variable groups')
    ctx.assume('graph objects are built through cnfgen.graphs.BipartiteGraph / Graph (add_edge) or networkx; C13/C15 cover them')


def replay(ctx, data):
    return generic_replay(data)
