"""C07 - output is a function of the command line and the seed only (relational, fresh processes).

bounded part
  * CLI: an argument-vector list covering every sub-command, every random graph construction and
    modifier, random transformations, pbgen and cnfshuffle; each (argv, seed) is run in fresh
    interpreters under several configurations (same configuration twice, another PYTHONHASHSEED,
    random PYTHONHASHSEED + another working directory) and the stdout bytes are compared.
  * library: every generator with a `seed` parameter is called twice with the same seed (global RNG
    disturbed in between, and in fresh processes with different hash seeds) and must return the same object.

Violation keys name the *source of the difference* (coarse, stable):
  rng:<site>:<seed0|seeded>:<tool>       body differs between identical configurations
        site = formula | graph-arg | graph-modifier | transformation | transformation-graph-arg
  address-in-header:<sub-command>        header differs and contains `object at 0x...`
  header:<field>:<tool>                  another header field differs between identical configurations
  process-dependence:<tool>:<sub-command> a command without randomness differs between processes
  version-depends-on-cwd                 only the `generator:` header line differs when the cwd changes
  cwd-dependence:<where>:<tool>          anything else that changes with the working directory
  library:<generator>                    seeded library generator not reproducible
"""
import collections
import json
import os
import re
import tempfile

from vlib import core, x_cli
from vlib.replay import generic_replay

LEVEL = 'exploration'

CNF3 = "p cnf 6 7\n1 -2 3 0\n-1 4 0\n2 5 -6 0\n-3 -4 0\n4 5 6 0\n-5 1 0\n-6 -2 0\n"

# (site, tool, args)            {F} = fixture directory
CASES = [
    # --- no randomness at all -----------------------------------------------------------
    ('none', 'cnfgen', ['php', '3', '2']), ('none', 'cnfgen', ['bphp', '3', '2']), ('none', 'cnfgen', ['and', '2', '1']),
    ('none', 'cnfgen', ['or', '2', '1']), ('none', 'cnfgen', ['true']), ('none', 'cnfgen', ['false']),
    ('none', 'cnfgen', ['cliquecoloring', '4', '3', '2']), ('none', 'cnfgen', ['count', '4', '2']), ('none', 'cnfgen', ['parity', '4']),
    ('none', 'cnfgen', ['cpls', '2', '2', '2']), ('none', 'cnfgen', ['ram', '3', '3', '4']), ('none', 'cnfgen', ['ptn', '6']),
    ('none', 'cnfgen', ['vdw', '5', '2', '3']), ('none', 'cnfgen', ['rphp', '2', '3', '2']), ('none', 'cnfgen', ['op', '4']),
    ('none', 'cnfgen', ['tseitin', 'first', 'complete', '4']), ('none', 'cnfgen', ['subsetcard', 'complete', '2', '2']),
    ('none', 'cnfgen', ['kcolor', '3', 'complete', '4']), ('none', 'cnfgen', ['ec', 'torus', '3']),
    ('none', 'cnfgen', ['domset', '2', 'grid', '2', '3']), ('none', 'cnfgen', ['tiling', 'grid', '2', '2']),
    ('none', 'cnfgen', ['iso', 'grid', '2', '2', '-e', 'torus', '4']), ('none', 'cnfgen', ['kclique', '3', 'complete', '4']),
    ('none', 'cnfgen', ['kcliquebin', '2', 'grid', '2', '2']), ('none', 'cnfgen', ['ramlb', '2', '2', 'grid', '2', '2']),
    ('none', 'cnfgen', ['subgraph', '-G', 'complete', '4', '-H', 'grid', '2']), ('none', 'cnfgen', ['matching', 'complete', '4']),
    ('none', 'cnfgen', ['peb', 'pyramid', '2']), ('none', 'cnfgen', ['stone', '2', 'pyramid', '1']),
    ('none', 'cnfgen', ['dimacs', '{F}/f.cnf']), ('none', 'cnfgen', ['--varnames', '-of', 'opb', 'php', '3', '2', '-T', 'xor', '2']),
    ('none', 'cnfgen', ['-of', 'latex', 'op', '3']), ('none', 'cnfgen', ['peb', '{F}/d.kthlist']),
    ('none', 'cnfgen', ['kcolor', '2', '{F}/g.kthlist', '-T', 'lift', '2']),
    ('none', 'pbgen', ['php', '3', '2']), ('none', 'pbgen', ['subsetcard', 'complete', '2', '2']), ('none', 'pbgen', ['kcolor', '3', 'complete', '4']),
    ('none', 'pbgen', ['-of', 'latex', 'tseitin', 'first', 'complete', '3']),
    # --- randomness inside the formula builder -------------------------------------------
    ('formula', 'cnfgen', ['randkcnf', '3', '8', '5']), ('formula', 'cnfgen', ['randkcnf', '-p', '3', '8', '9']),
    ('formula', 'cnfgen', ['randkxor', '3', '8', '5']), ('formula', 'cnfgen', ['randkxor', '--plant', '3', '8', '5']),
    ('formula', 'cnfgen', ['php', '6', '5', '2']), ('formula', 'cnfgen', ['tseitin', '8']), ('formula', 'cnfgen', ['tseitin', '8', '3']),
    ('formula', 'cnfgen', ['op', '8', '3']), ('formula', 'cnfgen', ['subsetcard', '5']), ('formula', 'cnfgen', ['subsetcard', '6', '3']),
    ('formula', 'cnfgen', ['stone', '4', 'pyramid', '2', '--sparse', '2']), ('formula', 'cnfgen', ['tseitin', 'random', 'complete', '5']),
    ('formula', 'cnfgen', ['tseitin', 'randomodd', 'grid', '3', '3']), ('formula', 'cnfgen', ['tseitin', 'randomeven', 'torus', '3', '3']),
    ('formula', 'cnfgen', ['pitfall', '8', '3', '2', '2', '2']), ('formula', 'cnfgen', ['-of', 'opb', 'randkcnf', '3', '8', '5']),
    ('formula', 'cnfgen', ['-of', 'latex', '-q', 'randkxor', '3', '8', '5']),
    ('formula', 'pbgen', ['randkcnf', '3', '8', '5']), ('formula', 'pbgen', ['randkxor', '3', '8', '5']), ('formula', 'pbgen', ['php', '6', '5', '2']),
    ('formula', 'pbgen', ['subsetcard', '5']), ('formula', 'pbgen', ['op', '8', '3']),
    # --- random graph constructions as arguments ------------------------------------------
    ('graph-arg', 'cnfgen', ['kcolor', '3', 'gnp', '8', '.5']), ('graph-arg', 'cnfgen', ['ec', 'gnd', '8', '4']),
    ('graph-arg', 'cnfgen', ['domset', '2', 'gnm', '7', '9']), ('graph-arg', 'cnfgen', ['tiling', 'gnp', '7', '.4']),
    ('graph-arg', 'cnfgen', ['iso', 'gnm', '5', '5', '-e', 'gnp', '5', '.5']), ('graph-arg', 'cnfgen', ['kclique', '3', 'gnp', '3', '.6', '3']),
    ('graph-arg', 'cnfgen', ['kcliquebin', '3', 'gnp', '7', '.5']), ('graph-arg', 'cnfgen', ['ramlb', '3', '3', 'gnm', '7', '10']),
    ('graph-arg', 'cnfgen', ['subgraph', '-G', 'gnp', '6', '.5', '-H', 'gnm', '3', '2']), ('graph-arg', 'cnfgen', ['matching', 'gnd', '8', '3']),
    ('graph-arg', 'cnfgen', ['op', 'gnm', '6', '8']), ('graph-arg', 'cnfgen', ['tseitin', 'first', 'gnd', '8', '3']),
    ('graph-arg', 'cnfgen', ['php', 'glrp', '5', '4', '.5']), ('graph-arg', 'cnfgen', ['php', 'glrm', '5', '5', '6']),
    ('graph-arg', 'cnfgen', ['php', 'glrd', '5', '5', '2']), ('graph-arg', 'cnfgen', ['subsetcard', 'regular', '6', '6', '3']),
    ('graph-arg', 'pbgen', ['kcolor', '3', 'gnp', '8', '.5']), ('graph-arg', 'pbgen', ['php', 'glrd', '5', '5', '2']),
    ('graph-arg', 'pbgen', ['subsetcard', 'glrp', '5', '5', '.5']), ('graph-arg', 'pbgen', ['domset', '2', 'gnm', '7', '9']),
    # --- random graph modifiers on a deterministic base graph ------------------------------
    ('graph-modifier', 'cnfgen', ['kclique', '3', 'grid', '3', '3', 'plantclique', '3']),
    ('graph-modifier', 'cnfgen', ['kcolor', '3', 'empty', '7', 'addedges', '8']),
    ('graph-modifier', 'cnfgen', ['ec', 'torus', '3', '3', 'splitedges', '4']),
    ('graph-modifier', 'cnfgen', ['php', 'empty', '5', '5', 'plantbiclique', '2', '2']),
    ('graph-modifier', 'cnfgen', ['subsetcard', 'empty', '5', '5', 'addedges', '9']),
    ('graph-modifier', 'pbgen', ['kcolor', '3', 'empty', '7', 'addedges', '8']),
    ('graph-modifier', 'pbgen', ['php', 'empty', '5', '5', 'plantbiclique', '2', '2']),
    # --- random transformations ----------------------------------------------------------
    ('transformation', 'cnfgen', ['php', '4', '3', '-T', 'shuffle']), ('transformation', 'cnfgen', ['op', '4', '-T', 'shuffle', '-p']),
    ('transformation', 'cnfgen', ['and', '4', '4', '-T', 'xorcomp', '6', '2']), ('transformation', 'cnfgen', ['php', '3', '3', '-T', 'majcomp', '7', '3']),
    ('transformation', 'cnfgen', ['php', '3', '2', '-T', 'xor', '2', '-T', 'shuffle', '-T', 'or', '2']),
    ('transformation', 'cnfgen', ['randkcnf', '3', '8', '5', '-T', 'shuffle', '-T', 'xor', '2']),
    ('transformation-graph-arg', 'cnfgen', ['and', '4', '4', '-T', 'xorcomp', 'glrd', '8', '6', '2']),
    ('transformation-graph-arg', 'cnfgen', ['and', '4', '4', '-T', 'majcomp', 'glrp', '8', '6', '.5']),
]
SHUFFLE_CASES = [[], ['-q'], ['-p'], ['-v'], ['-c'], ['-p', '-v'], ['-i', '{F}/big.cnf']]
SEEDS = [0, 1, 42, -7, 2 ** 40]


def _marker(line):
    for m in ('c ', '* ', '% '):
        if line.startswith(m) or line == m.strip():
            return m
    return None


def _where(o1, o2):
    """set of places where two outputs differ"""
    l1, l2 = o1.split('\n'), o2.split('\n')
    out = set()
    if len(l1) != len(l2):
        out.add('body')
    for a, b in zip(l1, l2):
        if a == b:
            continue
        ma = re.match(r'(?:[c*%] )?([A-Za-z][\w ]*?):', a)
        mb = re.match(r'(?:[c*%] )?([A-Za-z][\w ]*?):', b)
        if ma and mb and ma.group(1) == mb.group(1) and not re.match(r'[-+\d]', a):
            f = ma.group(1).replace(' ', '-')
            if 'object at 0x' in a or 'object at 0x' in b:
                out.add('address')
            else:
                out.add('header:' + f)
        else:
            out.add('body')
    return out


def _subcmd(tool, args):
    if tool == 'cnfshuffle':
        return 'cnfshuffle'
    skip = False
    for a in args:
        if skip:
            skip = False
            continue
        if a in ('-of', '--output-format', '-o', '--seed', '-S'):
            skip = True
            continue
        if not a.startswith('-'):
            return a
    return '?'


def _configs(tmp, thorough):
    c = [('same', '0', None), ('same-again', '0', None), ('hashseed', '1', None), ('cwd+hashseed', 'random', tmp)]
    if thorough:
        c += [('hashseed2', '12345', None), ('hashseed-random', 'random', None)]
    return c


def judge(site, tool, args, seed, outs):
    """outs: list of (config name, result dict). returns list of (key, text)"""
    base = outs[0][1]
    bad = []
    seen = set()
    if any(r['rc'] != 0 or r.get('timeout') for _, r in outs):
        return None                    # the command fails: not a statement about output (C18's business)
    ref = base['out'].decode('utf-8', 'replace')
    sub = _subcmd(tool, args)
    same_where = set()
    for name, r in outs[1:]:
        txt = r['out'].decode('utf-8', 'replace')
        if txt == ref:
            continue
        w = _where(ref, txt)
        if site != 'none' and 'body' in w:
            w.discard('header:description')     # a consequence of the different random draw, not a separate source
        if not name.startswith('cwd'):
            same_where |= w
        else:
            w = w - same_where
            if not w:
                continue
            if w == {'header:generator'}:
                keys = ['version-depends-on-cwd']
            else:
                keys = ['cwd-dependence:{}:{}'.format('+'.join(sorted(w - {'header:generator'})), tool)]
                if 'header:generator' in w:
                    keys.append('version-depends-on-cwd')
            for k in keys:
                if k not in seen:
                    seen.add(k)
                    bad.append((k, 'config {}: differs in {}'.format(name, sorted(w))))
            continue
        for x in sorted(w):
            if x == 'address':
                k = 'address-in-header:' + sub
            elif x == 'body':
                if site == 'none':
                    k = 'process-dependence:{}:{}'.format(tool, sub)
                else:
                    k = 'rng:{}:{}:{}'.format(site, 'seed0' if seed == 0 else 'seeded', tool)
            else:
                k = '{}:{}'.format(x, tool)
            if k not in seen:
                seen.add(k)
                bad.append((k, 'config {} vs first run: differs in {}'.format(name, x)))
    return bad


def _run_case(site, tool, args, seed, stdin, fix, tmp, thorough):
    a = x_cli.subst([x.replace('{F}', '{D}') for x in args], fix)
    if seed is not None:
        a = ['--seed', str(seed)] + a
    jobs = [dict(tool=tool, args=a, stdin=stdin, hashseed=hs, cwd=cwd) for _, hs, cwd in _configs(tmp, thorough)]
    return jobs


def replay_cli(site, tool, args, seed, stdin='', key=None):
    """True iff the difference named by `key` (any difference if key is None) does not occur"""
    with tempfile.TemporaryDirectory() as fix, tempfile.TemporaryDirectory() as tmp:
        x_cli.make_fixtures(fix)
        _extra_fixtures(fix)
        jobs = _run_case(site, tool, args, seed, stdin, fix, tmp, True)
        res = x_cli.run_many(jobs)
        bad = judge(site, tool, args, seed, list(zip([c[0] for c in _configs(tmp, True)], res)))
        for b in bad or []:
            print('  ', b)
        if key is not None:
            return key not in [b[0] for b in bad or []]
        return not bad


def _extra_fixtures(fix):
    import random
    rng = random.Random(5)
    lines = ['p cnf 12 30']
    for _ in range(30):
        vs = rng.sample(range(1, 13), 3)
        lines.append(' '.join(str(v * rng.choice([1, -1])) for v in vs) + ' 0')
    with open(os.path.join(fix, 'big.cnf'), 'w') as f:
        f.write('\n'.join(lines) + '\n')


def _head():
    import subprocess
    try:
        return subprocess.run(['git', '-C', core.REPO, 'rev-parse', 'HEAD'], stdout=subprocess.PIPE, stderr=subprocess.DEVNULL,
                              timeout=30).stdout.decode().strip()
    except Exception:
        return ''


def bounded_cli(ctx):
    thorough = ctx.tier == 'thorough'
    head0 = _head()
    work = []     # (site, tool, args, seed, stdin)
    for ci, (site, tool, args) in enumerate(CASES):
        if site == 'none':
            seeds = [None, 0, 42] if thorough else [None, 42 if ci % 2 else 0]
        elif thorough:
            seeds = SEEDS
        else:
            seeds = [0, 42, -7] if ci % 3 else [0, 1, 2 ** 40]
        for s in seeds:
            work.append((site, tool, args, s, ''))
    big = None
    for ci, args in enumerate(SHUFFLE_CASES):
        for s in (SEEDS if thorough else [0, 42, -7, 2 ** 40][: 2 + ci % 3]):
            work.append(('formula', 'cnfshuffle', args, s, '' if '-i' in args else 'BIG'))
    ctx.rule('C07 bounded: one case = (tool, argument vector, seed); each case is run in {} fresh processes '
             '(same configuration twice, other PYTHONHASHSEED, random PYTHONHASHSEED in another cwd) and stdout bytes compared; '
             'non-trivial iff the command involves randomness or a seed; distinct by the triple'.format(6 if thorough else 4))
    ctx.bounds['cli'] = '{} argument vectors ({} sub-commands of cnfgen, pbgen, cnfshuffle), seeds from {}, {} cases'.format(
        len(CASES) + len(SHUFFLE_CASES), len(set(_subcmd(t, a) for _, t, a in CASES)), SEEDS, len(work))
    with tempfile.TemporaryDirectory(prefix='c07_fix') as fix, tempfile.TemporaryDirectory(prefix='c07_cwd') as tmp:
        x_cli.make_fixtures(fix)
        _extra_fixtures(fix)
        bigtxt = open(os.path.join(fix, 'big.cnf')).read()
        jobs, index = [], []
        cfg = _configs(tmp, thorough)
        for wi, (site, tool, args, seed, stdin) in enumerate(work):
            st = bigtxt if stdin == 'BIG' else stdin
            js = _run_case(site, tool, args, seed, st, fix, tmp, thorough)
            jobs.extend(js)
            index.extend([wi] * len(js))
        res = x_cli.run_many(jobs)
        moved = _head() != head0
        if moved:
            ctx.notes.append('C07: the repository HEAD changed while the processes were running; differences of the version string '
                             'between runs are not judged in this run.')
        per = collections.defaultdict(list)
        for wi, r in zip(index, res):
            per[wi].append(r)
        notjudged = []
        for wi, (site, tool, args, seed, stdin) in enumerate(work):
            outs = list(zip([c[0] for c in cfg], per[wi]))
            ctx.case(('cli', tool, tuple(args), seed), nontrivial=(site != 'none' or seed is not None))
            bad = judge(site, tool, args, seed, outs)
            if bad is None:
                notjudged.append({'tool': tool, 'args': args, 'seed': seed, 'rc': [r['rc'] for r in per[wi]],
                                  'err': per[wi][0]['err'].strip().splitlines()[-1:]})
                continue
            for key, text in bad:
                if moved and key.startswith('header:generator'):
                    continue
                ctx.violation(key, '{} {}{} :: {}'.format(tool, '' if seed is None else '--seed {} '.format(seed), ' '.join(args), text),
                              {'fn': 'checks.C07:replay_cli', 'args': dict(site=site, tool=tool, args=args, seed=seed, key=key,
                                                                         stdin=(bigtxt if stdin == 'BIG' else stdin))})
        # every formula sub-command of the tool must be in the list
        core.import_repo()
        from cnfgen.clitools.cmdline import get_formula_helpers, get_transformation_helpers
        have = set(_subcmd(t, a) for _, t, a in CASES)
        missing = sorted(set(h.name for h in get_formula_helpers()) - have)
        ctx.section('C07', processes=len(jobs), not_judged_because_the_command_failed=notjudged, subcommands_not_covered=missing)
        if missing:
            ctx.notes.append('C07: sub-commands without a reproducibility case: {}'.format(missing))
    ctx.sample({'tool': 'cnfgen', 'args': ['kcolor', '3', 'gnp', '8', '.5'], 'seed': 42, 'configs': [c[0] for c in cfg]})
    ctx.sample({'tool': 'cnfshuffle', 'args': ['-p'], 'seed': 0})


# ------------------------------------------------------------------------------------------
# library generators with a seed parameter
# ------------------------------------------------------------------------------------------
LIB_SCRIPT = r'''
import sys, json, random
sys.path.insert(0, sys.argv[1])
sys.dont_write_bytecode = True
which, seed = sys.argv[2], json.loads(sys.argv[3])
disturb = int(sys.argv[4])
from cnfgen.families.randomformulas import RandomKCNF
from cnfgen.families.randomkxor import RandomKXOR
from cnfgen.formula.opb import OPB
from cnfgen import graphs
from cnfgen.graphs import Graph, BipartiteGraph
random.seed(disturb)
for _ in range(disturb % 7):
    random.random()
def formula(F):
    return [type(F).__name__, F.number_of_variables(), list(F.all_variable_labels()), [list(c) for c in F], F.header.get('description')]
def graph(G):
    return [type(G).__name__, G.number_of_vertices(), sorted(map(tuple, G.edges())), G.name]
def base_simple():
    G = Graph(7)
    for u, v in [(1, 2), (2, 3), (3, 4), (4, 5), (5, 6), (6, 7), (1, 7), (2, 5)]:
        G.add_edge(u, v)
    return G
def base_bip():
    B = BipartiteGraph(4, 5)
    for u, v in [(1, 1), (2, 2), (3, 3), (4, 4), (1, 5)]:
        B.add_edge(u, v)
    return B
if which == 'RandomKCNF': r = formula(RandomKCNF(3, 8, 10, seed=seed))
elif which == 'RandomKCNF:planted': r = formula(RandomKCNF(3, 8, 10, seed=seed, planted_assignments=[[1, -2, 3, -4, 5, -6, 7, -8]]))
elif which == 'RandomKCNF:opb': r = formula(RandomKCNF(3, 8, 10, seed=seed, formula_class=OPB))
elif which == 'RandomKXOR': r = formula(RandomKXOR(3, 8, 6, seed=seed))
elif which == 'RandomKXOR:planted': r = formula(RandomKXOR(3, 8, 6, seed=seed, planted_assignments=[[1, -2, 3, -4, 5, -6, 7, -8]]))
elif which == 'bipartite_random_left_regular': r = graph(graphs.bipartite_random_left_regular(5, 6, 3, seed=seed))
elif which == 'bipartite_random_m_edges:sparse': r = graph(graphs.bipartite_random_m_edges(5, 6, 7, seed=seed))
elif which == 'bipartite_random_m_edges:dense': r = graph(graphs.bipartite_random_m_edges(4, 4, 13, seed=seed))
elif which == 'bipartite_random': r = graph(graphs.bipartite_random(5, 6, 0.5, seed=seed))
elif which == 'bipartite_random_regular': r = graph(graphs.bipartite_random_regular(6, 6, 3, seed=seed))
elif which == 'add_random_missing_edges:simple':
    G = base_simple(); graphs.add_random_missing_edges(G, 5, seed=seed); r = graph(G)
elif which == 'add_random_missing_edges:bipartite':
    G = base_bip(); graphs.add_random_missing_edges(G, 5, seed=seed); r = graph(G)
elif which == 'split_random_edges':
    G = base_simple(); graphs.split_random_edges(G, 3, seed=seed); r = graph(G)
else: raise SystemExit('unknown ' + which)
print(json.dumps(r))
'''
LIB_GENERATORS = ['RandomKCNF', 'RandomKCNF:planted', 'RandomKCNF:opb', 'RandomKXOR', 'RandomKXOR:planted',
                  'bipartite_random_left_regular', 'bipartite_random_m_edges:sparse', 'bipartite_random_m_edges:dense',
                  'bipartite_random', 'bipartite_random_regular', 'add_random_missing_edges:simple',
                  'add_random_missing_edges:bipartite', 'split_random_edges']
LIB_SEEDS = [0, 1, 42, -7, 2 ** 40, 'abc', 2.5]


def _lib_run(which, seed, disturb, hashseed):
    import subprocess
    env = {'PATH': os.environ.get('PATH', '/usr/bin:/bin'), 'PYTHONHASHSEED': str(hashseed), 'PYTHONWARNINGS': 'ignore',
           'PYTHONDONTWRITEBYTECODE': '1', 'HOME': os.environ.get('HOME', '/tmp')}
    p = subprocess.run([x_cli.PY, '-B', '-c', LIB_SCRIPT, core.REPO, which, json.dumps(seed), str(disturb)],
                       stdout=subprocess.PIPE, stderr=subprocess.PIPE, env=env, cwd=core.REPO, timeout=120)
    return p.returncode, p.stdout.decode(), p.stderr.decode()


def eval_lib(which, seed, thorough=False):
    """None if reproducible; 'raised' marker (not judged) if the generator fails; else text"""
    from concurrent.futures import ThreadPoolExecutor
    cfgs = [(3, '0'), (11, '0'), (5, '1'), (8, 'random')] + ([(2, '777'), (13, 'random')] if thorough else [])
    with ThreadPoolExecutor(max_workers=len(cfgs)) as ex:
        rs = list(ex.map(lambda c: _lib_run(which, seed, c[0], c[1]), cfgs))
    if any(rc != 0 for rc, _, _ in rs):
        return 'raised: ' + (rs[0][2].strip().splitlines() or ['?'])[-1]
    for (rc, out, _), c in zip(rs[1:], cfgs[1:]):
        if out != rs[0][1]:
            return 'global RNG advanced by {} draws / PYTHONHASHSEED={} gives another result than the first call'.format(c[0] % 7, c[1])
    return None


def replay_lib(which, seed):
    r = eval_lib(which, seed, True)
    if r:
        print('  ', r)
    return r is None or r.startswith('raised')


def bounded_lib(ctx):
    thorough = ctx.tier == 'thorough'
    from concurrent.futures import ThreadPoolExecutor
    seeds = LIB_SEEDS if thorough else [0, 42, -7, 'abc']
    work = [(g, s) for g in LIB_GENERATORS for s in seeds]
    ctx.bounds['library'] = '{} seeded generators x seeds {}; each called in {} fresh processes with a differently advanced global RNG and hash seed'.format(
        len(LIB_GENERATORS), seeds, 6 if thorough else 4)
    with ThreadPoolExecutor(max_workers=4) as ex:
        res = list(ex.map(lambda w: eval_lib(w[0], w[1], thorough), work))
    raised = []
    for (g, s), r in zip(work, res):
        ctx.case(('lib', g, repr(s)))
        if r is None:
            continue
        if r.startswith('raised'):
            raised.append({'generator': g, 'seed': s, 'error': r})
            continue
        ctx.violation('library:' + g, '{}(seed={!r}) :: {}'.format(g, s, r), {'fn': 'checks.C07:replay_lib', 'args': {'which': g, 'seed': s}})
    ctx.section('C07-library', not_judged_because_the_generator_raised=raised)
    ctx.sample({'library': 'bipartite_random_left_regular(5, 6, 3, seed=42)', 'runs': 4})


def run(ctx):
    from checks import proofs
    proofs.run_group(ctx, 'C07')
    bounded_cli(ctx)
    bounded_lib(ctx)
    ctx.assume('tools started as the console_scripts entry points do (fresh interpreter per run, PYTHONPATH=$VERIF_REPO); '
               'a command that exits with an error is not judged here (C18)')
    ctx.assume('"all PYTHONHASHSEED values / all processes" is sampled: hash seeds 0, 1, random (thorough: two more), two working directories')


def replay(ctx, data):
    return generic_replay(data)
