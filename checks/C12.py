"""C12 - OPB and LaTeX renderings denote the formula held in memory.

bounded part (this file).  Every rendering is read by an independent reader of
vlib.x_readers and compared row by row with the formula:
  OPB    first line declares the true number of variables and constraints; every other line
         is a '*' comment or a constraint; constraint i has the coefficients, literals,
         relation and degree of row i of the formula
  LaTeX  (snippet to_latex() and document to_file(..'latex')): row i of the align blocks
         shows exactly the literals of row i, with the variable names and polarities
         (coefficient, relation, degree for OPB); \\square for the empty clause, \\top for the
         empty formula; rows survive the page splits in order
Formulas: all small CNFs, small OPB formulas (coefficients, both relations, negative literals,
empty constraint, degrees -1..4), page-split sizes, named variables, families and
transformation chains (nested names), unusual header text, output format selection, cnfgen/pbgen.
"""
import gc
import itertools
import os
import random
import tempfile
from io import StringIO

from vlib import core
from vlib import enumerate as en
from vlib import x_readers as xr
from vlib import x_ioformulas as xf
from vlib.replay import generic_replay

LEVEL = 'exploration'


# =====================================================================================
# comparison with the in-memory rows
# =====================================================================================
def _as_constraints(kind, rows):
    """rows of the formula as [(c,l)...] , op , degree"""
    out = []
    for r in rows:
        if kind == 'cnf':
            out.append(([(1, l) for l in r], '>=', 1))
        else:
            out.append(([(c, l) for c, l in r[:-2]], r[-2], r[-1]))
    return out


def check_opb_text(text, kind, n, rows, universal=False):
    """None or (what, detail)"""
    doc = xr.opb_read(text, universal)          # FormatError handled by the caller
    if doc['n'] != n or doc['m'] != len(rows):
        return ('declared_counts', 'first line declares {} variables {} constraints, formula has {} and {}'.format(doc['n'], doc['m'], n, len(rows)))
    want = _as_constraints(kind, rows)
    for i, (got, (terms, op, deg)) in enumerate(zip(doc['constraints'], want)):
        if got[:-2] != terms:
            return ('terms', 'constraint {}: file has terms {}, formula {}'.format(i, got[:-2], terms))
        if got[-2] != op:
            return ('relation', 'constraint {}: file has {}, formula {}'.format(i, got[-2], op))
        if got[-1] != deg:
            return ('degree', 'constraint {}: file has degree {}, formula {}'.format(i, got[-1], deg))
    return None


def check_latex_bodies(bodies, kind, rows, names):
    """bodies: align bodies in order.  None or (what, detail)"""
    read = []
    for b in bodies:
        r = xr.latex_rows(b)
        if r == 'top':
            if len(bodies) != 1 or rows:
                return ('top', '\\top shown for a formula with {} rows'.format(len(rows)))
            return None
        if not r:
            return ('rows_count', 'an align block without rows')
        read.extend(r)
    if not rows:
        return ('top', 'empty formula not shown as \\top but as {} rows'.format(len(read)))
    if len(read) != len(rows):
        return ('rows_count', '{} rows shown, formula has {}'.format(len(read), len(rows)))
    want = _as_constraints(kind, rows)
    for i, (rt, (terms, op, deg)) in enumerate(zip(read, want)):
        if kind == 'cnf':
            lits = xr.latex_clause_row(rt)
            if len(lits) != len(terms):
                return ('literals', 'row {}: {} literals shown, clause has {} ({!r})'.format(i, len(lits), len(terms), rt))
            for lr, (_, l) in zip(lits, terms):
                if not xr.literal_matches(lr, l < 0, names[abs(l) - 1]):
                    return ('literals', 'row {}: shows {} for literal {} named {!r}'.format(i, lr, l, names[abs(l) - 1]))
        else:
            tr, opr, degr = xr.latex_constraint_row(rt)
            if len(tr) != len(terms):
                return ('literals', 'row {}: {} terms shown, constraint has {} ({!r})'.format(i, len(tr), len(terms), rt))
            for (cr, lr), (c, l) in zip(tr, terms):
                if not xr.literal_matches(lr, l < 0, names[abs(l) - 1]):
                    return ('literals', 'row {}: shows {} for literal {} named {!r}'.format(i, lr, l, names[abs(l) - 1]))
                if cr != c:
                    return ('coefficient' if c != 0 else 'coefficient0', 'row {}: coefficient {} shown for {} ({!r})'.format(i, cr, c, rt))
            if opr != op:
                return ('relation', 'row {}: relation {} shown for {}'.format(i, opr, op))
            if degr != deg:
                return ('degree', 'row {}: degree {} shown for {}'.format(i, degr, deg))
    return None


# =====================================================================================
# one case
# =====================================================================================
def _produce(F, fmt, header, varnames, route, tmp):
    if fmt == 'opb':
        if route == 'method':
            return F.to_opb()
        if route == 'stream':
            s = StringIO()
            F.to_file(s, fileformat='opb', export_header=header, export_varnames=varnames)
            return s.getvalue()
        path = os.path.join(tmp, 'f.opb')
        F.to_file(path, export_header=header, export_varnames=varnames)
    elif fmt == 'latex_snippet':
        return F.to_latex()
    else:
        if route == 'stream':
            s = StringIO()
            F.to_file(s, fileformat='latex', export_header=header, export_varnames=varnames)
            return s.getvalue()
        path = os.path.join(tmp, 'f.tex')
        F.to_file(path, export_header=header, export_varnames=varnames)
    with open(path, 'rb') as f:
        return f.read().decode('utf-8')


def eval_render(spec, fmt, header=True, varnames=False, route='stream', keytag=None):
    """None if rendering `fmt` of the formula denotes it; else (key, what)"""
    F, exp = _build_cached(spec)
    kind = spec['cls'] if spec['kind'] == 'family' else spec['kind']
    rows, n = exp['rows'], exp['n']
    before = (F.number_of_variables(), [list(r) for r in F])
    fam = {'opb': 'opb', 'latex_snippet': 'latex:snippet', 'latex_doc': 'latex:document'}[fmt]
    # one key per root cause: a tagged section reports under its tag only
    tag = '{}:{}'.format(fam.split(':')[0], keytag) if keytag else '{}:{}'.format(fam, kind)
    with tempfile.TemporaryDirectory(prefix='verif_c12_') if route == 'file' else _nodir() as tmp:
        try:
            text = _produce(F, fmt, header, varnames, route, tmp)
        except Exception as e:
            return (tag + ':raises:' + type(e).__name__, 'writer raised {}: {}'.format(type(e).__name__, e))
        try:
            if fmt == 'opb':
                bad = check_opb_text(text, kind, n, rows, universal=route == 'file')
            else:
                if fmt == 'latex_snippet':
                    bodies = xr.latex_snippet(text)
                else:
                    doc = xr.latex_document(text)
                    bodies = doc['bodies']
                    if doc['counts'] is not None and doc['counts'] != (kind, n, len(rows)):
                        return (tag + ':declared_counts', 'document says {} , formula is {}'.format(doc['counts'], (kind, n, len(rows))))
                bad = check_latex_bodies(bodies, kind, rows, exp['names']('x_{}'))
        except xr.FormatError as e:
            src = ''
            if fmt == 'opb' and route != 'method':
                src = ':body'
                for h, v, name in ((False, varnames, ':header'), (header, False, ':varnames')):
                    if (h, v) != (header, varnames):
                        try:
                            xr.opb_read(_produce(F, fmt, h, v, route, tmp), universal=route == 'file')
                            src = name
                            break
                        except xr.FormatError:
                            pass
            if src in (':header', ':varnames'):
                return ('opb:noncomment_line' + src, 'a line that is neither a comment nor a constraint of the formula comes from the {}: {}'.format(src[1:], e.msg))
            return ('{}:{}{}'.format(tag, e.kind, src), 'rendering not understood: {}'.format(e.msg))
    if bad:
        return ('{}:{}'.format(tag, bad[0]), bad[1])
    if before != (F.number_of_variables(), [list(r) for r in F]):
        _CACHE[0] = None
        return (tag + ':mutates_formula', 'formula changed while being written')
    return None


_CACHE = [None, None]


def _build_cached(spec):
    """the same formula object serves all renderings of a spec (writers must not change it: checked)"""
    key = repr(spec)
    if _CACHE[0] != key:
        _CACHE[0], _CACHE[1] = key, xf.build(spec)
    return _CACHE[1]


class _nodir:
    def __enter__(self):
        return None

    def __exit__(self, *a):
        return False


def replay_render(spec, fmt, header=True, varnames=False, route='stream', keytag=None):
    return eval_render(spec, fmt, header, varnames, route, keytag) is None


def _short(spec):
    s = repr(spec)
    return s if len(s) < 220 else s[:220] + '...'


def _report(ctx, spec, fmt, h, v, r, bad, keytag=None):
    ctx.violation(bad[0], '{} as {} header={} varnames={} via {} : {}'.format(_short(spec), fmt, h, v, r, bad[1]),
                  {'fn': 'checks.C12:replay_render', 'args': dict(spec=spec, fmt=fmt, header=h, varnames=v, route=r, keytag=keytag)})


def _check(ctx, spec, fmt, h, v, r, case_key, nontrivial=True, keytag=None):
    ctx.case(case_key, nontrivial)
    bad = eval_render(spec, fmt, h, v, r, keytag)
    if bad:
        _report(ctx, spec, fmt, h, v, r, bad, keytag)
    return bad


RENDERINGS = [('opb', False, False, 'method'), ('opb', True, False, 'stream'), ('opb', True, True, 'stream'), ('opb', False, True, 'stream'),
              ('latex_snippet', False, False, 'method'), ('latex_doc', True, False, 'stream'), ('latex_doc', False, False, 'stream')]


def _worker(job):
    out = []
    for spec, renderings in job:
        for (fmt, h, v, r) in renderings:
            bad = eval_render(spec, fmt, h, v, r)
            if bad:
                out.append((spec, fmt, h, v, r, bad))
    return out


def _run_pool(ctx, specs, renderings, label, nontrivial, chunk=250):
    import multiprocessing as mp
    jobs, batch = [], []
    for spec in specs:
        batch.append((spec, renderings))
        for rr in renderings:
            ctx.case((label, repr(spec), rr), nontrivial=nontrivial(spec))
        if len(batch) >= chunk:
            jobs.append(batch)
            batch = []
    if batch:
        jobs.append(batch)
    with mp.Pool(min(12, os.cpu_count() or 1)) as pool:
        for res in pool.imap(_worker, jobs):
            for spec, fmt, h, v, r, bad in res:
                _report(ctx, spec, fmt, h, v, r, bad)


# =====================================================================================
# sections
# =====================================================================================
def bounded_cnf_small(ctx):
    thorough = ctx.tier == 'thorough'
    rng = random.Random(ctx.seed)
    allf = list(en.cnfs(3, 3 if thorough else 2, 3))
    if not thorough:
        three = [f for f in en.cnfs(3, 3, 3) if len(f[1]) == 3]
        allf += rng.sample(three, 3000)
    ctx.bounds['cnf_small'] = ('all CNFs over 3 declared variables, clauses of <= 3 distinct literals, <= {} clauses{} ; 7 renderings '
                               '(to_opb, OPB file x header x varnames, to_latex, LaTeX document x header)'.format(
                                   3 if thorough else 2, '' if thorough else ' plus 3000 sampled 3-clause formulas'))
    ctx.rule('C12: one case = (formula, rendering, header flag, varnames flag, route); non-trivial iff the formula has a row with a literal')
    specs = [{'kind': 'cnf', 'n': n, 'clauses': cl} for n, cl in allf]
    _run_pool(ctx, specs, RENDERINGS, 'cnf_small', lambda s: any(s['clauses']))
    ctx.sample({'cnf': {'n': 3, 'clauses': [[1, -2], [], [3]]}, 'renderings': [r[0] for r in RENDERINGS]})


def opb_constraint_pool(coefs, maxterms):
    lits = [1, -1, 2, -2, 3, -3]
    terms = [(c, l) for c in coefs for l in lits]
    pool = []
    for nt in range(maxterms + 1):
        for ts in itertools.product(terms, repeat=nt):
            for op in ('>=', '=='):
                for d in range(-1, 5):
                    pool.append([list(t) for t in ts] + [op, d])
    return pool


def bounded_opb_small(ctx):
    thorough = ctx.tier == 'thorough'
    rng = random.Random(ctx.seed + 1)
    pool = opb_constraint_pool([1, 2, 3], 2)
    specs = [{'kind': 'opb', 'n': 3, 'constraints': [c]} for c in pool]
    # 2 and 3 constraints, 3-term constraints, larger coefficients/degrees
    big = [[[c1, l1], [c2, l2], [c3, l3], op, d]
           for (c1, c2, c3) in [(1, 1, 1), (3, 2, 1), (12, 1, 10), (100, 7, 2)]
           for (l1, l2, l3) in [(1, 2, 3), (-1, -2, -3), (3, -1, 2), (2, 2, -2)]
           for op in ('>=', '==') for d in (-3, 0, 1, 13, 109)]
    specs += [{'kind': 'opb', 'n': 4, 'constraints': [c]} for c in big]
    for _ in range(6000 if thorough else 1500):
        k = rng.choice([2, 3, 3])
        specs.append({'kind': 'opb', 'n': rng.choice([0, 3, 5]), 'constraints': [rng.choice(pool if rng.random() < .8 else big) for _ in range(k)]})
    # constraints handed over in non-normalised form (reference: the stored, normalised row)
    for _ in range(1500 if thorough else 400):
        nt = rng.choice([0, 1, 2, 3])
        con = [[rng.choice([-3, -2, -1, 1, 2, 3]), rng.choice([1, -1, 2, -2, 3, -3])] for _ in range(nt)] + [rng.choice(['<=', '<', '>', '>=', '==']), rng.randint(-2, 4)]
        specs.append({'kind': 'opb', 'n': 3, 'constraints': [con, rng.choice(pool)]})
    ctx.bounds['opb_small'] = ('all single constraints with <= 2 terms, coefficients 1..3, literals +-1..3 (repeated variables allowed), relations >= and ==, '
                               'degrees -1..4 ({}); 160 three-term constraints with coefficients up to 100 and degrees -3..109; {} sampled formulas with 2-3 '
                               'constraints; {} with constraints given with <=,<,>, negative coefficients; 7 renderings'.format(
                                   len(pool), 6000 if thorough else 1500, 1500 if thorough else 400))
    _run_pool(ctx, specs, RENDERINGS, 'opb_small', lambda s: any(len(c) > 2 for c in s['constraints']))
    # empty formula / empty constraint
    for spec in ({'kind': 'opb', 'n': 0, 'constraints': []}, {'kind': 'opb', 'n': 4, 'constraints': []},
                 {'kind': 'opb', 'n': 0, 'constraints': [['>=', 1]]}, {'kind': 'opb', 'n': 0, 'constraints': [['>=', 0], ['==', 0], ['==', 2]]},
                 {'kind': 'cnf', 'n': 0, 'clauses': []}, {'kind': 'cnf', 'n': 0, 'clauses': [[]]}, {'kind': 'cnf', 'n': 2, 'clauses': [[], []]}):
        for (fmt, h, v, r) in RENDERINGS + [('opb', True, True, 'file'), ('latex_doc', True, False, 'file')]:
            _check(ctx, spec, fmt, h, v, r, ('empty', repr(spec), fmt, h, v, r))
    ctx.sample({'opb': {'constraints': [[[2, 1], [3, -2], '==', 2]]}})
    ctx.sample({'opb': {'constraints': [['>=', 1]]}, 'note': 'empty constraint'})


def bounded_zero_coefficient(ctx):
    """a term with coefficient 0 is accepted by add_constraint (checked) and is part of the formula"""
    ctx.bounds['zero_coefficient'] = 'constraints containing a term with coefficient 0 (accepted by add_constraint): 6 formulas, 7 renderings'
    for con in ([[0, 1], '>=', 1], [[0, 1], '>=', 0], [[2, 1], [0, -2], '>=', 2], [[0, 1], [0, 2], '==', 0], [[0, -3], [1, 1], '==', 1], [[1, 2], [0, 2], '>=', 1]):
        spec = {'kind': 'opb', 'n': 3, 'constraints': [con]}
        for (fmt, h, v, r) in RENDERINGS:
            _check(ctx, spec, fmt, h, v, r, ('zero', repr(con), fmt, h, v, r), keytag='zero_coefficient')


def bounded_pages(ctx):
    thorough = ctx.tier == 'thorough'
    sizes = [1, 34, 35, 36, 69, 70, 71, 105, 106] + ([140, 141, 350] if thorough else [])
    ctx.bounds['page_splits'] = 'CNF and OPB formulas with {} rows (documents break the page every 35 rows), all rows distinct, one empty row inside'.format(sizes)
    for m in sizes:
        clauses = [[(i % 7) + 1, -((i // 7) + 8)] for i in range(m)]
        cons = [[[(i % 3) + 1, (i % 7) + 1], [1, -((i // 7) + 8)], '>=' if i % 2 else '==', i] for i in range(m)]
        if m > 1:
            clauses[m // 2] = []
            cons[m // 2] = ['>=', 1]
        for spec in ({'kind': 'cnf', 'n': 0, 'clauses': clauses}, {'kind': 'opb', 'n': 0, 'constraints': cons}):
            for (fmt, h, v, r) in (('latex_doc', True, False, 'stream'), ('latex_doc', False, False, 'file'), ('latex_snippet', False, False, 'method'), ('opb', True, True, 'stream')):
                _check(ctx, spec, fmt, h, v, r, ('pages', spec['kind'], m, fmt, h, r))
    ctx.sample({'page_split': {'rows': 71, 'kind': 'opb'}})


NAMES = ['X', 'x_1', 'y^2', 'z_{1,2}', 'w_1^2', 'w^2_1', '{a}_1', 'a_{b_{c}}', 'p^{q}_r', '_lead', '^lead_x', 'f(1)=2', 'e_{1,2}', 'a b', 'A+B',
         'A + B', 'x=y', 'x = 3', '\\alpha_3', 'v-1', '1', '0', '2x', 'x_{}', 'é_1', '\\lor', 'a \\lor b', '{x_1}^2', 'X_{{x_1}^1}^2', '{{z}}', 'q_', 'r^']


def bounded_names(ctx):
    ctx.bounds['names'] = ('{} variable names (sub/superscripts, nested braces, spaces, =, +, digits, \\lor inside) as single variables; blocks with 1-3 indices; '
                           'unnamed variables between groups; every literal of both polarities, CNF and OPB, 7 renderings'.format(len(NAMES)))
    entries = [['var', nm] for nm in NAMES]
    n = len(NAMES)
    clauses = [[i, -i] for i in range(1, n + 1)] + [[-i for i in range(1, n + 1)], list(range(n, 0, -1))]
    cons = [[[2, i], [1, -i], '>=', 1] for i in range(1, n + 1)] + [[[i % 4 + 1, -i] for i in range(1, n + 1)] + ['==', 5]]
    specs = [{'kind': 'cnf', 'n': 0, 'clauses': clauses, 'names': entries},
             {'kind': 'opb', 'n': 0, 'constraints': cons, 'names': entries}]
    groups = [['var', 'S'], ['block', [2, 3], 'z_{{{},{}}}'], ['anon', 2], ['block', [2], 'p_{}^{{+}}'], ['block', [0], 'none_{}'],
              ['block', [2, 1, 2], 'v({},{},{})'], ['anon', 1]]
    ng = 1 + 6 + 2 + 2 + 0 + 4 + 1
    specs.append({'kind': 'cnf', 'n': ng + 2, 'clauses': [[i, -(ng + 2 - i + 1)] for i in range(1, ng + 3)] + [[-i for i in range(1, ng + 3)]], 'names': groups})
    specs.append({'kind': 'opb', 'n': ng + 2, 'constraints': [[[3, i], [1, -(ng + 2 - i + 1)], '==', 2] for i in range(1, ng + 3)], 'names': groups})
    for spec in specs:
        for (fmt, h, v, r) in RENDERINGS:
            _check(ctx, spec, fmt, h, v, r, ('names', spec['kind'], len(spec['names']), fmt, h, v, r))
    ctx.sample({'names': NAMES[:10]})


def bounded_names_after_gap(ctx):
    """a named single variable allocated after unnamed ones keeps its name (D09 shows here)"""
    ctx.bounds['names_after_gap'] = 'update_variable_number(k) then new_variable(name), k in 1..3: the literal of the named variable must show that name'
    for k in (1, 2, 3):
        for kind in ('cnf', 'opb'):
            spec = {'kind': kind, 'n': 0, 'names': [['anon', k], ['var', 'X'], ['anon', 1], ['var', 'Y']]}
            nn = k + 3
            if kind == 'cnf':
                spec['clauses'] = [[i, -((i % nn) + 1)] for i in range(1, nn + 1)]
            else:
                spec['constraints'] = [[[2, i], [1, -((i % nn) + 1)], '>=', 1] for i in range(1, nn + 1)]
            for (fmt, h, v, r) in (('latex_snippet', False, False, 'method'), ('latex_doc', True, False, 'stream')):
                _check(ctx, spec, fmt, h, v, r, ('gap', kind, k, fmt), keytag='names_after_gap')


def bounded_families(ctx):
    thorough = ctx.tier == 'thorough'
    names = xf.family_names()
    ctx.bounds['families'] = '{} family instances, each as CNF and as OPB; transformation chains of length 1 (all 9) and 2 ({}) on 2 bases; 7 renderings (+ file route for OPB and document)'.format(
        len(names), 'all 81' if thorough else '21 pairs')
    for name in names:
        for cls in ('cnf', 'opb'):
            spec = {'kind': 'family', 'name': name, 'cls': cls, 'chain': []}
            for (fmt, h, v, r) in RENDERINGS + [('opb', True, True, 'file'), ('latex_doc', True, False, 'file')]:
                _check(ctx, spec, fmt, h, v, r, ('family', name, cls, fmt, h, v, r))
    chains = [[t] for t in xf.TRANSFORMATIONS]
    pairs = [[a, b] for a in xf.TRANSFORMATIONS for b in xf.TRANSFORMATIONS]
    if not thorough:      # the blow-up of maj/neq followed by another substitution is left to the thorough tier
        pairs = [p for p in pairs[1::3] if p[0][0] not in ('maj', 'neq')]
    specs = [{'kind': 'family', 'name': base, 'cls': 'cnf', 'chain': chain} for base in ('php_3_2', 'peb_pyr') for chain in chains + pairs]
    _run_pool(ctx, specs, [('opb', True, True, 'stream'), ('latex_snippet', False, False, 'method'), ('latex_doc', True, False, 'stream')],
              'chain', lambda s: True, chunk=4)
    ctx.sample({'family': 'subsetcard_eq', 'cls': 'opb'})
    ctx.sample({'family': 'php_3_2', 'chain': [['xor', 2], ['lift', 2]], 'note': 'names like X_{{x_1}^1}^2'})


def bounded_unusual(ctx):
    """every line of an OPB file that is not a constraint is a comment, whatever the header says"""
    ctx.bounds['unusual_text'] = '{} unusual texts as description / extra header value / variable name / block label; OPB files (CNF and OPB formulas), stream and file routes; LaTeX documents with the same descriptions'.format(len(xf.UNUSUAL))
    for t in xf.UNUSUAL:
        for kind in ('cnf', 'opb'):
            body = {'clauses': [[1, -2], [2]]} if kind == 'cnf' else {'constraints': [[[2, 1], [1, -2], '>=', 2], [[1, 2], '==', 1]]}
            for route in ('stream', 'file'):
                spec = dict(kind=kind, n=2, description=t, **body)
                _check(ctx, spec, 'opb', True, False, route, ('descr', kind, t, route))
                spec = dict(kind=kind, n=0, names=[['var', t], ['var', 'Y']], **body)
                _check(ctx, spec, 'opb', False, True, route, ('name', kind, t, route))
                _check(ctx, spec, 'opb', True, False, route, ('name-off', kind, t, route))
                spec = dict(kind=kind, n=0, names=[['block', [2], t.replace('{', '{{').replace('}', '}}') + '{}']], **body)
                _check(ctx, spec, 'opb', True, True, route, ('block', kind, t, route))
            if '\\begin{align}' not in t and '\\end{align}' not in t:
                spec = dict(kind=kind, n=2, description=t, **body)
                _check(ctx, spec, 'latex_doc', True, False, 'stream', ('descr-tex', kind, t))
        ctx.case(('field', t))
        bad = eval_header_field(t)
        if bad:
            ctx.violation(bad[0], 'header field value {!r}: {}'.format(t, bad[1]), {'fn': 'checks.C12:replay_header_field', 'args': {'value': t}})
    ctx.sample({'opb': {'description': 'a\nb'}})


def eval_header_field(value):
    core.import_repo()
    from cnfgen.formula.opb import OPB
    F = OPB()
    F.add_constraint([(2, 1), (1, -2), '>=', 2])
    F.header['note'] = value
    s = StringIO()
    F.to_file(s, export_header=True)
    try:
        bad = check_opb_text(s.getvalue(), 'opb', 2, [[(2, 1), (1, -2), '>=', 2]])
    except xr.FormatError as e:
        return ('opb:noncomment_line:header', e.msg)
    return ('opb:opb:' + bad[0], bad[1]) if bad else None


def replay_header_field(value):
    return eval_header_field(value) is None


# ---- output format selection ---------------------------------------------------------
def _classify(text):
    """which format is this text? (by the independent readers)"""
    kinds = []
    for name, rd in (('dimacs', xr.dimacs_writer_form), ('opb', xr.opb_read), ('latex', xr.latex_document)):
        try:
            rd(text)
            kinds.append(name)
        except xr.FormatError:
            pass
    return kinds


def eval_format(cls, filename, request, use_stream):
    """documented: explicit 'latex'/'opb'/'dimacs' wins; None -> by extension .tex/.opb, otherwise
    the default of the class (dimacs for CNF, opb for OPB); anything else -> ValueError"""
    core.import_repo()
    from cnfgen.formula.cnf import CNF
    from cnfgen.formula.opb import OPB
    if cls == 'cnf':
        F = CNF([[1, -2], [2, 3]])
    else:
        F = OPB()
        F.add_constraint([(2, 1), (1, -2), '>=', 2])
    if request in ('latex', 'opb', 'dimacs'):
        want = request
    elif request is None:
        want = 'latex' if filename.endswith('.tex') else 'opb' if filename.endswith('.opb') else 'dimacs'
    else:
        want = 'ValueError'
    if cls == 'opb' and want == 'dimacs':
        want = 'opb'       # OPBio.to_file: "OPB format is the default output format unless the file name ends with '.tex'"
    with tempfile.TemporaryDirectory(prefix='verif_c12_') as tmp:
        path = os.path.join(tmp, filename)
        try:
            if use_stream:
                with open(path, 'w', encoding='utf-8') as f:
                    F.to_file(f, fileformat=request)
            else:
                F.to_file(path, fileformat=request)
        except ValueError as e:
            return None if want == 'ValueError' else 'raised ValueError: {}'.format(e)
        except Exception as e:
            return 'raised {}: {}'.format(type(e).__name__, e)
        if want == 'ValueError':
            return 'request {!r} accepted'.format(request)
        with open(path, encoding='utf-8') as f:
            got = _classify(f.read())
    return None if got == [want] else 'file {} request {!r}: wrote {} , documented {}'.format(filename, request, got, want)


def replay_format(cls, filename, request, use_stream):
    return eval_format(cls, filename, request, use_stream) is None


def bounded_format(ctx):
    files = ['f.tex', 'f.opb', 'f.cnf', 'f', 'f.tex.cnf', 'f.opb.tex', 'tex', 'opb', 'f.TEX', 'f.texx', 'f.dimacs', 'a.b.opb', 'f.tex.opb']
    reqs = [None, 'latex', 'opb', 'dimacs', 'tex', 'LaTeX', '', 'cnf']
    ctx.bounds['format_selection'] = 'to_file: {} file names x requests {} x (path | open file object) x (CNF | OPB)'.format(len(files), reqs)
    for cls in ('cnf', 'opb'):
        for fn in files:
            for rq in reqs:
                for st in (False, True):
                    if cls == 'opb' and rq == 'dimacs':
                        continue      # not documented for OPB ("fileformat: 'tex', 'opb' or None")
                    ctx.case(('format', cls, fn, rq, st))
                    bad = eval_format(cls, fn, rq, st)
                    if bad:
                        ctx.violation('format_selection:{}:{}'.format(cls, 'request' if rq is not None else 'extension'), bad,
                                      {'fn': 'checks.C12:replay_format', 'args': dict(cls=cls, filename=fn, request=rq, use_stream=st)})


# ---- command line -----------------------------------------------------------------------
def eval_cli(tool, args, fmt, quiet, varnames):
    """`cnfgen/pbgen [-q] [--varnames] -of FMT -o OUT <args>`: OUT denotes the formula the same
    command line builds in memory (mode='formula')"""
    cg = core.import_repo()
    from cnfgen.clitools.pbgen import cli as pbgen
    run = cg.cnfgen if tool == 'cnfgen' else pbgen
    F = run([tool] + list(args), mode='formula')
    kind = 'cnf' if tool == 'cnfgen' else 'opb'
    rows, n = [list(r) for r in F], F.number_of_variables()
    with tempfile.TemporaryDirectory(prefix='verif_c12_') as tmp:
        out = os.path.join(tmp, 'out.txt')
        argv = [tool] + (['-q'] if quiet else []) + (['--varnames'] if varnames else []) + ['-of', fmt, '-o', out] + list(args)
        try:
            run(argv)
        except BaseException as e:
            return ('cli:{}:raises:{}'.format(tool, type(e).__name__), '{} raised {}: {}'.format(argv, type(e).__name__, e))
        gc.collect()
        with open(out, encoding='utf-8') as f:
            text = f.read()
    try:
        if fmt == 'opb':
            bad = check_opb_text(text, kind, n, rows)
        else:
            doc = xr.latex_document(text)
            if doc['counts'] is not None and doc['counts'] != (kind, n, len(rows)):
                return ('cli:{}:{}:declared_counts'.format(tool, fmt), 'document says {}'.format(doc['counts']))
            bad = check_latex_bodies(doc['bodies'], kind, rows, list(F.all_variable_labels(default_label_format='x_{}')))
    except xr.FormatError as e:
        return ('cli:{}:{}:{}'.format(tool, fmt, e.kind), e.msg)
    return ('cli:{}:{}:{}'.format(tool, fmt, bad[0]), bad[1]) if bad else None


def replay_cli(tool, args, fmt, quiet, varnames):
    return eval_cli(tool, args, fmt, quiet, varnames) is None


CLI = [('cnfgen', ['php', 3, 2]), ('cnfgen', ['op', 3]), ('cnfgen', ['php', 3, 2, '-T', 'xor', 2]), ('cnfgen', ['and', 0, 0]), ('cnfgen', ['or', 0, 0]),
       ('cnfgen', ['or', 2, 1]), ('cnfgen', ['ram', 3, 3, 5]), ('cnfgen', ['peb', 'pyramid', 2, '-T', 'lift', 2]), ('cnfgen', ['php', 7, 6]),
       ('pbgen', ['php', 3, 2]), ('pbgen', ['php', 7, 6]), ('pbgen', ['op', 3]), ('pbgen', ['subsetcard', 'complete', 3, 3])]


def bounded_cli(ctx):
    ctx.bounds['cli'] = '{} command lines of cnfgen/pbgen (in process), -of opb and -of latex, with/without -q and --varnames'.format(len(CLI))
    for i, (tool, args) in enumerate(CLI):
        args = [str(a) for a in args]
        for fmt in ('opb', 'latex'):
            q, v = bool(i % 2), bool((i // 2) % 2) ^ (fmt == 'latex')
            ctx.case(('cli', tool, tuple(args), fmt, q, v))
            bad = eval_cli(tool, args, fmt, q, v)
            if bad:
                ctx.violation(bad[0], '{} {} -of {} quiet={} varnames={} : {}'.format(tool, ' '.join(args), fmt, q, v, bad[1]),
                              {'fn': 'checks.C12:replay_cli', 'args': dict(tool=tool, args=args, fmt=fmt, quiet=q, varnames=v)})


# =====================================================================================
def run(ctx):
    from checks import proofs
    proofs.run_group(ctx, 'C12')
    only = getattr(ctx, 'only', None)
    for name, fn in (('cnf_small', bounded_cnf_small), ('opb_small', bounded_opb_small), ('zero', bounded_zero_coefficient),
                     ('pages', bounded_pages), ('names', bounded_names), ('gap', bounded_names_after_gap), ('families', bounded_families),
                     ('unusual', bounded_unusual), ('format', bounded_format), ('cli', bounded_cli)):
        if only and only not in name:
            continue
        fn(ctx)
    ctx.assume('independent readers in vlib/x_readers.py (opb_read, latex_*): written from the PB12 format as shown in the docstrings (no ";"), the documented align rows and the property statement; no cnfgen code')
    ctx.assume('in-memory reference: rows handed to add_clause/add_constraint in stored form (hand-built) or list(F) (families, non-normalised input); names of hand-built variables computed from the labels given, of family variables through all_variable_labels()')
    ctx.assume('LaTeX names are compared up to the position of braces (the documented negated form {\\overline{base}rest} regroups them), brace counts must agree')


def replay(ctx, data):
    return generic_replay(data)
